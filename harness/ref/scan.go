// Package ref holds the reference models: a strict, iterative RFC 8259 recogniser/tokeniser,
// an ordered AST with source ranges, canonical token comparison, JSONPath and field-query
// reference evaluators.  Nothing here imports go-json.
package ref

import (
	"bytes"
	"fmt"
	"unicode/utf8"
)

// Token kinds.
const (
	TObjOpen  = '{'
	TObjClose = '}'
	TArrOpen  = '['
	TArrClose = ']'
	TColon    = ':'
	TComma    = ','
	TString   = 's'
	TNumber   = 'n'
	TTrue     = 't'
	TFalse    = 'f'
	TNull     = '0'
)

type Tok struct {
	Kind       byte
	Start, End int  // byte range in the source
	Key        bool // string token in object-key position
}

// Relax names deviations from RFC 8259 that the recogniser can be told to accept; they are used
// only to attribute accepted-but-invalid inputs to known findings, never as the oracle.
type Relax struct {
	LenientNumber bool // number token = maximal run of [0-9+-.eE] accepted when strconv-like lenient form
	RawControl    bool // raw bytes < 0x20 accepted inside strings
	BadEscape     bool // any byte accepted after a backslash; \u followed by any 4 bytes
	ShortU        bool // with BadEscape: \u consumes only itself, what follows are ordinary characters
	RequireUTF8   bool // (a restriction, not a relaxation) strings must be valid UTF-8
}

type SyntaxError struct {
	Off int
	Msg string
}

func (e *SyntaxError) Error() string { return fmt.Sprintf("offset %d: %s", e.Off, e.Msg) }

func isWS(c byte) bool { return c == ' ' || c == '\t' || c == '\n' || c == '\r' }

// Scan recognises exactly one JSON value starting at b[0] (after optional whitespace) and returns
// its tokens and the offset just past the value.  It does not look at what follows the value.
// collect=false skips token collection.
func Scan(b []byte, rx Relax, collect bool) (toks []Tok, end int, err error) {
	i := 0
	n := len(b)
	// stack of container kinds: '{' or '['
	var stack []byte
	// state: 0 expect value, 1 expect key or '}', 2 expect ':', 3 after value (expect ',' or close),
	// 4 expect key (after comma), 5 expect value or ']' (just after '[')
	const (
		sValue = iota
		sKeyOrClose
		sColon
		sAfter
		sKey
		sValueOrClose
	)
	state := sValue
	emit := func(k byte, s, e int, key bool) {
		if collect {
			toks = append(toks, Tok{Kind: k, Start: s, End: e, Key: key})
		}
	}
	for {
		for i < n && isWS(b[i]) {
			i++
		}
		if i >= n {
			return toks, i, &SyntaxError{i, "unexpected end of input"}
		}
		c := b[i]
		switch state {
		case sValue, sValueOrClose:
			if state == sValueOrClose && c == ']' {
				emit(TArrClose, i, i+1, false)
				i++
				stack = stack[:len(stack)-1]
				state = sAfter
				break
			}
			switch {
			case c == '{':
				emit(TObjOpen, i, i+1, false)
				stack = append(stack, '{')
				i++
				state = sKeyOrClose
			case c == '[':
				emit(TArrOpen, i, i+1, false)
				stack = append(stack, '[')
				i++
				state = sValueOrClose
			case c == '"':
				e, er := scanString(b, i, rx)
				if er != nil {
					return toks, i, er
				}
				emit(TString, i, e, false)
				i = e
				state = sAfter
			case c == '-' || (c >= '0' && c <= '9') || (rx.LenientNumber && (c == '+' || c == '.')):
				e, er := scanNumber(b, i, rx)
				if er != nil {
					return toks, i, er
				}
				emit(TNumber, i, e, false)
				i = e
				state = sAfter
			case c == 't':
				if !bytes.HasPrefix(b[i:], []byte("true")) {
					return toks, i, &SyntaxError{i, "bad literal"}
				}
				emit(TTrue, i, i+4, false)
				i += 4
				state = sAfter
			case c == 'f':
				if !bytes.HasPrefix(b[i:], []byte("false")) {
					return toks, i, &SyntaxError{i, "bad literal"}
				}
				emit(TFalse, i, i+5, false)
				i += 5
				state = sAfter
			case c == 'n':
				if !bytes.HasPrefix(b[i:], []byte("null")) {
					return toks, i, &SyntaxError{i, "bad literal"}
				}
				emit(TNull, i, i+4, false)
				i += 4
				state = sAfter
			default:
				return toks, i, &SyntaxError{i, "unexpected byte at start of value"}
			}
		case sKeyOrClose, sKey:
			if state == sKeyOrClose && c == '}' {
				emit(TObjClose, i, i+1, false)
				i++
				stack = stack[:len(stack)-1]
				state = sAfter
				break
			}
			if c != '"' {
				return toks, i, &SyntaxError{i, "expected object key"}
			}
			e, er := scanString(b, i, rx)
			if er != nil {
				return toks, i, er
			}
			emit(TString, i, e, true)
			i = e
			state = sColon
		case sColon:
			if c != ':' {
				return toks, i, &SyntaxError{i, "expected colon"}
			}
			emit(TColon, i, i+1, false)
			i++
			state = sValue
		case sAfter:
			// handled below
		}
		if state == sAfter {
			if len(stack) == 0 {
				return toks, i, nil
			}
			for i < n && isWS(b[i]) {
				i++
			}
			if i >= n {
				return toks, i, &SyntaxError{i, "unexpected end of input"}
			}
			c := b[i]
			top := stack[len(stack)-1]
			switch {
			case c == ',':
				emit(TComma, i, i+1, false)
				i++
				if top == '{' {
					state = sKey
				} else {
					state = sValue
				}
			case c == '}' && top == '{':
				emit(TObjClose, i, i+1, false)
				i++
				stack = stack[:len(stack)-1]
				state = sAfter
				if len(stack) == 0 {
					return toks, i, nil
				}
			case c == ']' && top == '[':
				emit(TArrClose, i, i+1, false)
				i++
				stack = stack[:len(stack)-1]
				state = sAfter
				if len(stack) == 0 {
					return toks, i, nil
				}
			default:
				return toks, i, &SyntaxError{i, "expected comma or closing bracket"}
			}
		}
	}
}

func isHex(c byte) bool {
	return c >= '0' && c <= '9' || c >= 'a' && c <= 'f' || c >= 'A' && c <= 'F'
}

func scanString(b []byte, i int, rx Relax) (int, error) {
	start := i
	i++ // opening quote
	n := len(b)
	for i < n {
		c := b[i]
		switch {
		case c == '"':
			if rx.RequireUTF8 && !utf8.Valid(b[start:i]) {
				return i, &SyntaxError{start, "invalid UTF-8 in string"}
			}
			return i + 1, nil
		case c == '\\':
			if i+1 >= n {
				return i, &SyntaxError{i, "unterminated escape"}
			}
			e := b[i+1]
			switch e {
			case '"', '\\', '/', 'b', 'f', 'n', 'r', 't':
				i += 2
			case 'u':
				if rx.BadEscape && rx.ShortU {
					i += 2 // whatever follows \u is taken as ordinary characters
					continue
				}
				if i+6 > n {
					return i, &SyntaxError{i, "short \\u escape"}
				}
				if !rx.BadEscape {
					for k := 2; k < 6; k++ {
						if !isHex(b[i+k]) {
							return i, &SyntaxError{i, "bad hex in \\u escape"}
						}
					}
				}
				i += 6
			default:
				if !rx.BadEscape {
					return i, &SyntaxError{i, "bad escape"}
				}
				i += 2
			}
		case c < 0x20:
			if !rx.RawControl {
				return i, &SyntaxError{i, "raw control character in string"}
			}
			i++
		default:
			i++
		}
	}
	return i, &SyntaxError{start, "unterminated string"}
}

func isDigit(c byte) bool { return c >= '0' && c <= '9' }

func scanNumber(b []byte, i int, rx Relax) (int, error) {
	n := len(b)
	if rx.LenientNumber {
		j := i
		for j < n {
			c := b[j]
			if isDigit(c) || c == '+' || c == '-' || c == '.' || c == 'e' || c == 'E' {
				j++
				continue
			}
			break
		}
		if j == i {
			return i, &SyntaxError{i, "empty number"}
		}
		return j, nil
	}
	start := i
	if i < n && b[i] == '-' {
		i++
	}
	if i >= n {
		return i, &SyntaxError{start, "bare minus"}
	}
	switch {
	case b[i] == '0':
		i++
	case b[i] >= '1' && b[i] <= '9':
		for i < n && isDigit(b[i]) {
			i++
		}
	default:
		return i, &SyntaxError{start, "bad number"}
	}
	if i < n && b[i] == '.' {
		i++
		if i >= n || !isDigit(b[i]) {
			return i, &SyntaxError{start, "bad fraction"}
		}
		for i < n && isDigit(b[i]) {
			i++
		}
	}
	if i < n && (b[i] == 'e' || b[i] == 'E') {
		i++
		if i < n && (b[i] == '+' || b[i] == '-') {
			i++
		}
		if i >= n || !isDigit(b[i]) {
			return i, &SyntaxError{start, "bad exponent"}
		}
		for i < n && isDigit(b[i]) {
			i++
		}
	}
	return i, nil
}

// Valid reports whether b is exactly one JSON value surrounded by optional whitespace — the language
// of RFC 8259 as encoding/json accepts it (strings may contain arbitrary bytes >= 0x20).
func Valid(b []byte) bool { return ValidRelaxed(b, Relax{}) }

func ValidRelaxed(b []byte, rx Relax) bool {
	_, end, err := Scan(b, rx, false)
	if err != nil {
		return false
	}
	for end < len(b) {
		if !isWS(b[end]) {
			return false
		}
		end++
	}
	return true
}

// Tokens returns the token list of a complete valid text, or an error.
func Tokens(b []byte) ([]Tok, error) {
	toks, end, err := Scan(b, Relax{}, true)
	if err != nil {
		return nil, err
	}
	for end < len(b) {
		if !isWS(b[end]) {
			return nil, &SyntaxError{end, "trailing data"}
		}
		end++
	}
	return toks, nil
}

// IsJSONInteger reports whether s is a JSON number token without fraction or exponent.
func IsJSONInteger(s string) bool {
	b := []byte(s)
	e, err := scanNumber(b, 0, Relax{})
	if err != nil || e != len(b) {
		return false
	}
	for _, c := range b {
		if c == '.' || c == 'e' || c == 'E' {
			return false
		}
	}
	return true
}

// IsJSONNumber reports whether s is exactly one JSON number token.
func IsJSONNumber(s string) bool {
	b := []byte(s)
	if len(b) == 0 {
		return false
	}
	e, err := scanNumber(b, 0, Relax{})
	return err == nil && e == len(b)
}

// ValidRelaxedNum is ValidRelaxed with LenientNumber where a lenient number token must additionally be
// accepted by accept (e.g. strconv.ParseFloat); used only for known-finding attribution.
func ValidRelaxedNum(b []byte, rx Relax) bool {
	rx.LenientNumber = true
	toks, end, err := Scan(b, rx, true)
	if err != nil {
		return false
	}
	for end < len(b) {
		if !isWS(b[end]) {
			return false
		}
		end++
	}
	for _, t := range toks {
		if t.Kind == TNumber && !LenientNumberOK(string(b[t.Start:t.End])) {
			return false
		}
	}
	return true
}
