package ref

import "strconv"

// LenientNumberOK describes the number tokens the known finding "lenient-number" covers: a run of
// number characters that starts like a JSON number (minus or digit) and that strconv.ParseFloat
// accepts (01, 1., -.5, 1e5 ...; out-of-range results are not accepted by ParseFloat without error).
func LenientNumberOK(s string) bool {
	if s == "" {
		return false
	}
	c := s[0]
	if !(c == '-' || c >= '0' && c <= '9') {
		return false
	}
	_, err := strconv.ParseFloat(s, 64)
	return err == nil
}
