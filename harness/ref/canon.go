package ref

import (
	"bytes"
	"fmt"
	"strings"
)

// CanonToken rewrites the spelling of one token into the canonical one of the tolerated set:
// \u0008 -> \b, \u000c -> \f in strings; exponent zero padding removed in numbers (e-07 -> e-7).
func CanonToken(kind byte, s []byte) string {
	switch kind {
	case TString:
		// a ",string" float: the tolerated exponent spelling one level down ("1e-07" == "1e-7")
		if len(s) > 4 && bytes.IndexAny(s, "eE") > 0 && IsJSONNumber(string(s[1:len(s)-1])) {
			return `"` + CanonToken(TNumber, s[1:len(s)-1]) + `"`
		}
		if !bytes.Contains(s, []byte(`\u000`)) {
			return string(s)
		}
		// the same alternative spellings one level down (a ",string" payload that itself contains
		// the escape): \\u0008 == \\b, \\u000c == \\f
		s = bytes.ReplaceAll(s, []byte(`\\u0008`), []byte(`\\b`))
		s = bytes.ReplaceAll(s, []byte(`\\u000c`), []byte(`\\f`))
		s = bytes.ReplaceAll(s, []byte(`\\u000C`), []byte(`\\f`))
		var sb strings.Builder
		for i := 0; i < len(s); {
			if s[i] == '\\' && i+1 < len(s) {
				if s[i+1] == 'u' && i+6 <= len(s) {
					h := strings.ToLower(string(s[i+2 : i+6]))
					switch h {
					case "0008":
						sb.WriteString(`\b`)
					case "000c":
						sb.WriteString(`\f`)
					default:
						sb.Write(s[i : i+6])
					}
					i += 6
					continue
				}
				sb.Write(s[i : i+2])
				i += 2
				continue
			}
			sb.WriteByte(s[i])
			i++
		}
		return sb.String()
	case TNumber:
		k := bytes.IndexAny(s, "eE")
		if k < 0 {
			return string(s)
		}
		mant, exp := s[:k], s[k+1:]
		sign := ""
		if len(exp) > 0 && (exp[0] == '+' || exp[0] == '-') {
			sign = string(exp[0])
			exp = exp[1:]
		}
		for len(exp) > 1 && exp[0] == '0' {
			exp = exp[1:]
		}
		return string(mant) + string(s[k]) + sign + string(exp)
	}
	return string(s)
}

// SameDocument compares two JSON texts token by token under the tolerated spellings.  Inter-token
// whitespace is ignored.  Both must be strictly valid; the returned string describes the first
// difference ("" = same).
func SameDocument(a, b []byte) string {
	ta, err := Tokens(a)
	if err != nil {
		return "first text is not valid JSON: " + err.Error()
	}
	tb, err := Tokens(b)
	if err != nil {
		return "second text is not valid JSON: " + err.Error()
	}
	for i := 0; i < len(ta) && i < len(tb); i++ {
		x, y := ta[i], tb[i]
		if x.Kind != y.Kind {
			return fmt.Sprintf("token %d: kind %c vs %c (%q vs %q)", i, x.Kind, y.Kind, clip(a[x.Start:x.End]), clip(b[y.Start:y.End]))
		}
		if x.Kind == TString || x.Kind == TNumber {
			sa, sb := a[x.Start:x.End], b[y.Start:y.End]
			if !bytes.Equal(sa, sb) && CanonToken(x.Kind, sa) != CanonToken(y.Kind, sb) {
				return fmt.Sprintf("token %d: %q vs %q", i, clip(sa), clip(sb))
			}
		}
	}
	if len(ta) != len(tb) {
		return fmt.Sprintf("token count %d vs %d", len(ta), len(tb))
	}
	return ""
}

func clip(b []byte) string {
	if len(b) > 80 {
		return string(b[:80]) + "…"
	}
	return string(b)
}

// Depth returns the maximal nesting depth of a valid text (0 for scalars).
func Depth(b []byte) int {
	d, m := 0, 0
	in := false
	for i := 0; i < len(b); i++ {
		c := b[i]
		if in {
			if c == '\\' {
				i++
			} else if c == '"' {
				in = false
			}
			continue
		}
		switch c {
		case '"':
			in = true
		case '{', '[':
			d++
			if d > m {
				m = d
			}
		case '}', ']':
			d--
		}
	}
	return m
}
