package ref

import (
	"encoding/json"
	"fmt"
	"strconv"
	"strings"
)

// Node is an ordered JSON AST node with the byte range of its source text.
type Node struct {
	Kind       byte // 'o' 'a' 's' 'n' 't' 'f' '0'
	Start, End int
	Keys       []string // object: decoded member names, in order
	Elems      []*Node  // object member values / array elements
}

// Parse builds the AST of a valid text.
func Parse(b []byte) (*Node, error) {
	toks, err := Tokens(b)
	if err != nil {
		return nil, err
	}
	pos := 0
	var value func() (*Node, error)
	value = func() (*Node, error) {
		t := toks[pos]
		switch t.Kind {
		case TObjOpen:
			n := &Node{Kind: 'o', Start: t.Start}
			pos++
			for toks[pos].Kind != TObjClose {
				if toks[pos].Kind == TComma {
					pos++
				}
				var k string
				if err := json.Unmarshal(b[toks[pos].Start:toks[pos].End], &k); err != nil {
					return nil, err
				}
				pos += 2
				v, err := value()
				if err != nil {
					return nil, err
				}
				n.Keys = append(n.Keys, k)
				n.Elems = append(n.Elems, v)
			}
			n.End = toks[pos].End
			pos++
			return n, nil
		case TArrOpen:
			n := &Node{Kind: 'a', Start: t.Start}
			pos++
			for toks[pos].Kind != TArrClose {
				if toks[pos].Kind == TComma {
					pos++
				}
				v, err := value()
				if err != nil {
					return nil, err
				}
				n.Elems = append(n.Elems, v)
			}
			n.End = toks[pos].End
			pos++
			return n, nil
		}
		pos++
		k := t.Kind
		switch k {
		case TString:
			k = 's'
		case TNumber:
			k = 'n'
		case TTrue:
			k = 't'
		case TFalse:
			k = 'f'
		case TNull:
			k = '0'
		}
		return &Node{Kind: k, Start: t.Start, End: t.End}, nil
	}
	return value()
}

// ---- JSON Path reference (the five selector kinds of go-json's doc comment)

type Sel struct {
	Kind  byte   // 'n' child name, 'i' index, '*' all elements, 'r' recursive descent by name
	Name  string
	Index int
}

// ParsePath parses the documented path grammar: $ (.name | ."quoted" | ['quoted'] | ..name | [digits] | [*])*
// It returns ok=false for anything else (such strings are outside the reference semantics).
func ParsePath(p string) ([]Sel, bool) {
	if !strings.HasPrefix(p, "$") {
		return nil, false
	}
	r := []rune(p[1:])
	var out []Sel
	isNameRune := func(c rune) bool {
		return !strings.ContainsRune(".[]$*'\"", c)
	}
	i := 0
	for i < len(r) {
		switch r[i] {
		case '.':
			i++
			rec := false
			if i < len(r) && r[i] == '.' {
				rec = true
				i++
			}
			if i < len(r) && r[i] == '"' && !rec {
				j := i + 1
				for j < len(r) && r[j] != '"' {
					if r[j] == '\'' {
						return nil, false
					}
					j++
				}
				if j >= len(r) || j == i+1 || strings.ContainsRune("[]$.*'\"", r[i+1]) {
					return nil, false // go-json does not accept a quoted name that starts with a reserved character
				}
				out = append(out, Sel{Kind: 'n', Name: string(r[i+1 : j])})
				i = j + 1
				continue
			}
			j := i
			for j < len(r) && isNameRune(r[j]) {
				j++
			}
			if j == i {
				return nil, false
			}
			k := byte('n')
			if rec {
				k = 'r'
			}
			out = append(out, Sel{Kind: k, Name: string(r[i:j])})
			i = j
		case '[':
			i++
			if i >= len(r) {
				return nil, false
			}
			switch {
			case r[i] == '*':
				if i+1 >= len(r) || r[i+1] != ']' {
					return nil, false
				}
				out = append(out, Sel{Kind: '*'})
				i += 2
			case r[i] == '\'':
				j := i + 1
				for j < len(r) && r[j] != '\'' {
					if r[j] == '"' {
						return nil, false
					}
					j++
				}
				if j+1 >= len(r) || r[j+1] != ']' || j == i+1 || strings.ContainsRune("[]$.*'\"", r[i+1]) {
					return nil, false
				}
				out = append(out, Sel{Kind: 'n', Name: string(r[i+1 : j])})
				i = j + 2
			default:
				j := i
				for j < len(r) && r[j] >= '0' && r[j] <= '9' {
					j++
				}
				if j == i || j >= len(r) || r[j] != ']' {
					return nil, false
				}
				n, err := strconv.Atoi(string(r[i:j]))
				if err != nil {
					return nil, false
				}
				out = append(out, Sel{Kind: 'i', Index: n})
				i = j + 1
			}
		default:
			return nil, false
		}
	}
	return out, true
}

// Eval evaluates the selectors on the AST.  consistent=false means some selector met a node of the
// wrong kind (name on a non-object, index/wildcard on a non-array): the standard reading ("selects
// nothing") and an error are both defensible there, so callers do not compare results.
func Eval(root *Node, sels []Sel) (out []*Node, consistent bool) {
	cur := []*Node{root}
	consistent = true
	for _, s := range sels {
		var next []*Node
		for _, n := range cur {
			switch s.Kind {
			case 'n':
				if n.Kind != 'o' {
					consistent = false
					continue
				}
				for i, k := range n.Keys {
					if k == s.Name {
						next = append(next, n.Elems[i])
					}
				}
			case 'i':
				if n.Kind != 'a' {
					consistent = false
					continue
				}
				if s.Index < len(n.Elems) {
					next = append(next, n.Elems[s.Index])
				}
			case '*':
				if n.Kind != 'a' {
					consistent = false
					continue
				}
				next = append(next, n.Elems...)
			case 'r':
				var walk func(x *Node)
				walk = func(x *Node) {
					if x.Kind == 'o' {
						for i, k := range x.Keys {
							if k == s.Name {
								next = append(next, x.Elems[i])
							}
							walk(x.Elems[i])
						}
					} else if x.Kind == 'a' {
						for _, e := range x.Elems {
							walk(e)
						}
					}
				}
				walk(n)
			}
		}
		cur = next
	}
	return cur, consistent
}

func (s Sel) String() string {
	switch s.Kind {
	case 'n':
		return "." + s.Name
	case 'r':
		return ".." + s.Name
	case 'i':
		return fmt.Sprintf("[%d]", s.Index)
	}
	return "[*]"
}
