package gen

import (
	stdjson "encoding/json"
	"math"
	"reflect"
	"time"
	"unsafe"

	"pgregory.net/rapid"
)

// Src abstracts a source of draws so that a value can be rebuilt from recorded draws
// (two identical instances of a value, replay files).
type Src interface {
	Intn(n int) int // uniform in [0,n)
	U64() uint64
}

// Recipe is the recorded sequence of draws that built a value.
type Recipe []uint64

type rapidSrc struct {
	t   *rapid.T
	rec *Recipe
}

func (r rapidSrc) Intn(n int) int {
	if n <= 1 {
		*r.rec = append(*r.rec, 0)
		return 0
	}
	v := rapid.IntRange(0, n-1).Draw(r.t, "c")
	*r.rec = append(*r.rec, uint64(v))
	return v
}

func (r rapidSrc) U64() uint64 {
	v := rapid.Uint64().Draw(r.t, "u")
	*r.rec = append(*r.rec, v)
	return v
}

type replaySrc struct {
	rec Recipe
	i   *int
}

func (r replaySrc) next() uint64 {
	if *r.i >= len(r.rec) {
		return 0
	}
	v := r.rec[*r.i]
	*r.i++
	return v
}
func (r replaySrc) Intn(n int) int {
	v := r.next()
	if n <= 1 {
		return 0
	}
	return int(v % uint64(n))
}
func (r replaySrc) U64() uint64 { return r.next() }

// ValCfg selects value features.
type ValCfg struct {
	HostileF32    bool                                             // NaN / ±Inf in float32
	HostileF64    bool                                             // NaN / ±Inf in float64
	HostileNumber bool                                             // ill-formed json.Number text
	ASCII         bool                                             // strings are printable ASCII plus the characters needing escapes
	Custom        map[reflect.Type]func(Src, ValCfg) reflect.Value // type-specific builders (hostile marshalers)
	MaxLen        int                                              // max slice/map length (default 3)
	NaturalIface  bool                                             // interface{} holds only JSON-natural values (float64,string,bool,nil,[]interface{},map[string]interface{})
	ValidUTF8     bool                                             // strings are valid UTF-8
	NoNil         bool                                             // no nil pointers (used for some decode destinations)
	RoundTrip     bool                                             // only values that survive JSON (no raw with whitespace etc.)
	NoNilTypes    []reflect.Type                                   // map/slice types never left nil (known-finding avoidance)
	NoNilPtrTo    []reflect.Type                                   // pointers to these types are never nil
	PlainMapKeys  bool                                             // string map keys drawn from [a-z0-9] only
}

func inTypes(l []reflect.Type, t reflect.Type) bool {
	for _, x := range l {
		if x == t {
			return true
		}
	}
	return false
}

// Draw builds a value of typ from rapid draws and returns it with its recipe.
func Draw(t *rapid.T, typ reflect.Type, c ValCfg) (reflect.Value, Recipe) {
	var rec Recipe
	v := Build(typ, rapidSrc{t, &rec}, c)
	return v, rec
}

// Rebuild builds the value again from a recipe.
func Rebuild(typ reflect.Type, rec Recipe, c ValCfg) reflect.Value {
	i := 0
	return Build(typ, replaySrc{rec, &i}, c)
}

// Build constructs an addressable value of typ.
func Build(typ reflect.Type, s Src, c ValCfg) reflect.Value {
	v := reflect.New(typ).Elem()
	fill(v, s, c, 0)
	return v
}

var (
	numberType = reflect.TypeOf(stdjson.Number(""))
	rawType    = reflect.TypeOf(stdjson.RawMessage(nil))
	timeType   = reflect.TypeOf(time.Time{})
	bytesType  = reflect.TypeOf([]byte(nil))
)

func maxLen(c ValCfg) int {
	if c.MaxLen > 0 {
		return c.MaxLen
	}
	return 3
}

func fill(v reflect.Value, s Src, c ValCfg, depth int) {
	t := v.Type()
	if f, ok := c.Custom[t]; ok {
		v.Set(f(s, c))
		return
	}
	switch t {
	case numberType:
		v.SetString(numberText(s, c))
		return
	case rawType:
		v.SetBytes(rawText(s, c))
		return
	case timeType:
		v.Set(reflect.ValueOf(times[s.Intn(len(times))]))
		return
	}
	switch t.Kind() {
	case reflect.Bool:
		v.SetBool(s.Intn(2) == 1)
	case reflect.Int, reflect.Int8, reflect.Int16, reflect.Int32, reflect.Int64:
		v.SetInt(IntValue(s, t.Bits()))
	case reflect.Uint, reflect.Uint8, reflect.Uint16, reflect.Uint32, reflect.Uint64, reflect.Uintptr:
		v.SetUint(UintValue(s, t.Bits()))
	case reflect.Float32:
		v.SetFloat(float64(float32(FloatValue(s, 32, c.HostileF32))))
	case reflect.Float64:
		v.SetFloat(FloatValue(s, 64, c.HostileF64))
	case reflect.String:
		v.SetString(StringValueC(s, c))
	case reflect.Ptr:
		if !c.NoNil && s.Intn(4) == 0 && !inTypes(c.NoNilPtrTo, t.Elem()) {
			return
		}
		p := reflect.New(t.Elem())
		fill(p.Elem(), s, c, depth+1)
		v.Set(p)
	case reflect.Slice:
		if t.Elem().Kind() == reflect.Uint8 {
			switch s.Intn(5) {
			case 0:
				return // nil
			case 1:
				v.SetBytes([]byte{})
			default:
				n := s.Intn(7)
				if s.Intn(8) == 0 {
					n = 30 + s.Intn(40)
				}
				b := make([]byte, n)
				for i := range b {
					b[i] = byte(s.U64())
				}
				v.Set(reflect.ValueOf(b).Convert(t))
			}
			return
		}
		k := s.Intn(5)
		if k == 0 && inTypes(c.NoNilTypes, t) {
			k = 1
		}
		switch k {
		case 0:
			return
		case 1:
			v.Set(reflect.MakeSlice(t, 0, 0))
		default:
			n := 1 + s.Intn(maxLen(c))
			sl := reflect.MakeSlice(t, n, n+s.Intn(2))
			for i := 0; i < n; i++ {
				fill(sl.Index(i), s, c, depth+1)
			}
			v.Set(sl)
		}
	case reflect.Array:
		for i := 0; i < t.Len(); i++ {
			fill(v.Index(i), s, c, depth+1)
		}
	case reflect.Map:
		k := s.Intn(5)
		if k == 0 && inTypes(c.NoNilTypes, t) {
			k = 1
		}
		switch k {
		case 0:
			return
		case 1:
			v.Set(reflect.MakeMap(t))
		default:
			n := 1 + s.Intn(maxLen(c))
			m := reflect.MakeMap(t)
			for i := 0; i < n; i++ {
				k := reflect.New(t.Key()).Elem()
				if c.PlainMapKeys && t.Key().Kind() == reflect.String {
					k.SetString(plainKey(s))
				} else {
					fill(k, s, c, depth+1)
				}
				e := reflect.New(t.Elem()).Elem()
				fill(e, s, c, depth+1)
				m.SetMapIndex(k, e)
			}
			v.Set(m)
		}
	case reflect.Struct:
		for i := 0; i < t.NumField(); i++ {
			f := v.Field(i)
			if !f.CanSet() {
				f = reflect.NewAt(f.Type(), unsafe.Pointer(f.UnsafeAddr())).Elem()
			}
			fill(f, s, c, depth+1)
		}
	case reflect.Interface:
		if t.NumMethod() != 0 {
			return
		}
		fillIface(v, s, c, depth)
	}
}

// dynamic types an interface{} may hold besides JSON-natural values
var ifaceTypes = []reflect.Type{
	reflect.TypeOf(0), reflect.TypeOf(int8(0)), reflect.TypeOf(uint64(0)), reflect.TypeOf(float32(0)), reflect.TypeOf([]string(nil)),
	reflect.TypeOf(map[string]int(nil)), reflect.TypeOf(NStruct{}), reflect.TypeOf(&NStruct{}), reflect.TypeOf([]byte(nil)),
	reflect.TypeOf(map[int]string(nil)), reflect.TypeOf(struct {
		X interface{}
		Y *int `json:"y,omitempty"`
	}{}), reflect.TypeOf([2]bool{}), reflect.TypeOf(stdjson.Number("")), reflect.TypeOf(NStr("")), reflect.TypeOf((*int)(nil)),
	reflect.TypeOf([]interface{}(nil)), reflect.TypeOf(map[string]interface{}(nil)),
	reflect.TypeOf(ValMJ{}), reflect.TypeOf(RoundMJ{}), reflect.TypeOf(&ValMJ{}), reflect.TypeOf([]ValMJ(nil)), reflect.TypeOf(map[string]RoundMJ(nil)),
	reflect.TypeOf(struct {
		N int
		M ValMJ
		T ValMT `json:"t"`
	}{}), reflect.TypeOf(struct {
		I interface{}
		R *RoundMJ
	}{}), reflect.TypeOf(ValMT{}), reflect.TypeOf(IntMJ(0)), reflect.TypeOf(map[KeyMT]int(nil)),
}

// ExtraIfaceTypes lets a check add dynamic types (e.g. marshaler leaves).
var ExtraIfaceTypes []reflect.Type

func fillIface(v reflect.Value, s Src, c ValCfg, depth int) {
	k := s.Intn(8)
	if depth > 5 && k >= 4 {
		k = 1
	}
	switch k {
	case 0:
		return // nil
	case 1:
		v.Set(reflect.ValueOf(FloatValue(s, 64, false)))
	case 2:
		v.Set(reflect.ValueOf(StringValueC(s, c)))
	case 3:
		v.Set(reflect.ValueOf(s.Intn(2) == 1))
	case 4:
		n := s.Intn(maxLen(c) + 1)
		a := make([]interface{}, n)
		for i := range a {
			fillIface(reflect.ValueOf(&a[i]).Elem(), s, c, depth+1)
		}
		v.Set(reflect.ValueOf(a))
	case 5:
		n := s.Intn(maxLen(c) + 1)
		m := map[string]interface{}{}
		for i := 0; i < n; i++ {
			var e interface{}
			fillIface(reflect.ValueOf(&e).Elem(), s, c, depth+1)
			if c.PlainMapKeys {
				m[plainKey(s)] = e
			} else {
				m[StringValue(s, true)] = e
			}
		}
		v.Set(reflect.ValueOf(m))
	default:
		if c.NaturalIface {
			v.Set(reflect.ValueOf(FloatValue(s, 64, false)))
			return
		}
		all := ifaceTypes
		if len(ExtraIfaceTypes) > 0 {
			all = append(append([]reflect.Type{}, ifaceTypes...), ExtraIfaceTypes...)
		}
		dt := all[s.Intn(len(all))]
		d := reflect.New(dt).Elem()
		fill(d, s, c, depth+1)
		v.Set(d)
	}
}

var smallInts = []int64{0, 1, -1, 2, 7, 9, 10, 11, 42, 99, 100, 101, 999, 1000, 1001, 9999, 10000, 12345, -9, -10, -99, -100, -1000}

// IntValue draws a boundary-biased signed integer fitting bits.
func IntValue(s Src, bits int) int64 {
	min := int64(-1) << (bits - 1)
	max := -(min + 1)
	clamp := func(x int64) int64 {
		if bits == 64 {
			return x
		}
		if x < min || x > max {
			return x << (64 - bits) >> (64 - bits) // truncate to width (sign-extended)
		}
		return x
	}
	switch s.Intn(7) {
	case 0:
		return clamp(smallInts[s.Intn(len(smallInts))])
	case 1:
		return []int64{min, max, min + 1, max - 1}[s.Intn(4)]
	case 2: // powers of ten
		p := int64(1)
		k := s.Intn(19)
		for i := 0; i < k; i++ {
			p *= 10
		}
		p += int64(s.Intn(3)) - 1
		if s.Intn(2) == 0 {
			p = -p
		}
		return clamp(p)
	case 3: // powers of two
		p := int64(1) << uint(s.Intn(bits-1))
		p += int64(s.Intn(3)) - 1
		if s.Intn(2) == 0 {
			p = -p
		}
		return clamp(p)
	}
	return clamp(int64(s.U64()))
}

// UintValue draws a boundary-biased unsigned integer fitting bits.
func UintValue(s Src, bits int) uint64 {
	var max uint64 = math.MaxUint64
	if bits < 64 {
		max = uint64(1)<<uint(bits) - 1
	}
	switch s.Intn(7) {
	case 0:
		x := smallInts[s.Intn(len(smallInts))]
		if x < 0 {
			x = -x
		}
		return uint64(x) & max
	case 1:
		return []uint64{0, max, max - 1, max >> 1, max>>1 + 1}[s.Intn(5)]
	case 2:
		p := uint64(1)
		k := s.Intn(20)
		for i := 0; i < k; i++ {
			p *= 10
		}
		p += uint64(s.Intn(3)) - 1
		return p & max
	case 3:
		p := uint64(1) << uint(s.Intn(bits))
		p += uint64(s.Intn(3)) - 1
		return p & max
	}
	return s.U64() & max
}

var floatTable = []float64{0, math.Copysign(0, -1), 1, -1, 0.1, 0.5, 1.5, -2.5, 1e-7, 1e-6, 9.999999e-7, 1e20, 1e21, 9.99999999e20, 1e-5, 123456789, 1e6, 1e7,
	math.MaxFloat32, math.SmallestNonzeroFloat32, math.MaxFloat64, math.SmallestNonzeroFloat64, 0.30000000000000004, 1.7976931348623157e308, 2.2250738585072014e-308,
	3.4028234663852886e38, 16777216, 16777217, 9007199254740993, 100, 1e100, 1e-100, 5e-324, 1.401298464324817e-45, 0.000001, 1234.5678, 3.141592653589793, 2.5e-8}

// FloatValue draws a boundary-biased float.
func FloatValue(s Src, bits int, hostile bool) float64 {
	k := s.Intn(6)
	h, hh := s.Intn(4), s.Intn(3) // always drawn, so that a recipe rebuilds with or without hostile values
	if hostile && h == 0 {
		return []float64{math.NaN(), math.Inf(1), math.Inf(-1)}[hh]
	}
	var f float64
	switch k {
	case 0, 1, 2:
		f = floatTable[s.Intn(len(floatTable))]
		if s.Intn(3) == 0 {
			f = -f
		}
	case 3:
		f = float64(int64(s.U64())%100000) / []float64{1, 10, 100, 1000, 1e6}[s.Intn(5)]
	default:
		if bits == 32 {
			f = float64(math.Float32frombits(uint32(s.U64())))
		} else {
			f = math.Float64frombits(s.U64())
		}
	}
	if math.IsNaN(f) || math.IsInf(f, 0) {
		return 1.25
	}
	if bits == 32 && math.Abs(f) > math.MaxFloat32 {
		return 3.5
	}
	return f
}

var strPieces = []string{"a", "b", "z", "A", "0", " ", "_", "-", ".", "/", "'", ":", ",", "{", "[",
	"\"", "\\", "<", ">", "&", "\n", "\t", "\r", "\b", "\f", "\x00", "\x01", "\x1f", "\x7f",
	"\u00e9", "\u00df", "\u20ac", "\u4e16", "\u2028", "\u2029", "\ufffd", "\U0001F600", "\U0001D11E", "\u0080", "\u07ff", "\u0800", "\uffff", "\U00010000", "\U0010FFFF"}
var badPieces = []string{"\x80", "\xbf", "\xc0\xaf", "\xc3", "\xe2\x82", "\xe2\x80", "\xed\xa0\x80", "\xed\xbf\xbf", "\xf4\x90\x80\x80", "\xf0\x9f", "\xff", "\xfe", "\xc1\xbf", "\xe0\x80\x80", "\xf8\x88\x80\x80\x80"}

func init() {
	// code points next to the encoding boundaries (built from numbers, never typed as literals)
	for _, r := range []rune{0xD7C0, 0xD7FB, 0xD7FF, 0xE000, 0xFFFE, 0x9F, 0xA0, 0x100, 0x7FE, 0xFFF, 0x1000, 0xCFFF, 0xD000, 0xFDD0, 0x1FFFF, 0x20000, 0x3FFFF, 0x40000, 0xFFFFF, 0x100000} {
		strPieces = append(strPieces, string(r))
	}
}

// StringValueC draws a string under the configuration.
func StringValueC(s Src, c ValCfg) string {
	str := StringValue(s, c.ValidUTF8 || c.ASCII)
	if c.ASCII {
		b := []byte(str)
		for i, ch := range b {
			if ch >= 0x80 {
				b[i] = 'u'
			}
		}
		return string(b)
	}
	return str
}

// StringValue draws a string from byte classes, with lengths spread around the 8-byte SWAR window.
func StringValue(s Src, validUTF8 bool) string {
	switch s.Intn(8) {
	case 0:
		return ""
	case 1:
		return []string{"a", "x", "abc", "hello", "key", "id", "1", "true", "null"}[s.Intn(9)]
	}
	n := s.Intn(6)
	if s.Intn(3) == 0 {
		n = 6 + s.Intn(14)
	}
	b := make([]byte, 0, 32)
	for i := 0; i < n; i++ {
		switch s.Intn(8) {
		case 0, 1, 2, 3:
			b = append(b, "abcdefghijklmnopqrstuvwxyz0123456789"[s.Intn(36)])
		case 4, 5, 6:
			b = append(b, strPieces[s.Intn(len(strPieces))]...)
		default:
			if validUTF8 {
				b = append(b, 'q')
			} else {
				b = append(b, badPieces[s.Intn(len(badPieces))]...)
			}
		}
	}
	return string(b)
}

var goodNumbers = []string{"0", "-0", "1", "-1", "10", "1.5", "-2.5e3", "1e10", "1E-5", "123456789012345678901234567890", "0.1", "1e400", "9223372036854775808", "3.0", "2e+2", "0e0", "100"}
var badNumbers = []string{"", "1e", "--1", "1.", "0x1", " 1", "1 2", "+1", ".5", "1e+", "-", "01", "1.e1", "abc", "1,2", "NaN", "Infinity", "1_000", "--", "+.", "e1", "1ee1", "0.", "-.5", "1.2.3", "\"1\"", "1]", "[1]", "true"}

func numberText(s Src, c ValCfg) string {
	h, hh := s.Intn(2), s.Intn(len(badNumbers)) // always drawn
	if c.HostileNumber && h == 0 {
		return badNumbers[hh]
	}
	if c.RoundTrip {
		return goodNumbers[s.Intn(len(goodNumbers))]
	}
	if s.Intn(6) == 0 {
		return "" // encoding/json emits 0 for the empty Number
	}
	return goodNumbers[s.Intn(len(goodNumbers))]
}

var rawTexts = []string{`null`, `1`, `"x"`, `true`, `{}`, `[]`, `{"a":1,"b":[true,null,"s"]}`, `[1,2,{"k":"v"}]`, `"a<b"`, `-1.5e3`, `{"z":1,"a":2}`, `"é"`, `[[[]]]`}
var rawTextsWS = []string{` 1`, `{ "a" : 1 }`, "[1,\n2]", `[ ]`, "\t\"x\" "}

func rawText(s Src, c ValCfg) []byte {
	k := s.Intn(10)
	switch {
	case k == 0 && !c.RoundTrip:
		return nil
	case k == 1 && !c.RoundTrip:
		return []byte(rawTextsWS[s.Intn(len(rawTextsWS))])
	}
	return []byte(rawTexts[s.Intn(len(rawTexts))])
}

var times = []time.Time{
	{}, time.Unix(0, 0).UTC(), time.Date(2023, 3, 4, 5, 6, 7, 0, time.UTC), time.Date(2023, 3, 4, 5, 6, 7, 123456789, time.UTC),
	time.Date(1999, 12, 31, 23, 59, 59, 500000000, time.FixedZone("X", 5*3600+1800)), time.Date(2000, 1, 1, 0, 0, 0, 1000, time.FixedZone("", -8*3600)),
	time.Date(9999, 12, 31, 23, 59, 59, 999999999, time.UTC), time.Date(1, 1, 1, 0, 0, 0, 1, time.UTC),
}

func plainKey(s Src) string {
	n := s.Intn(5)
	b := make([]byte, n)
	for i := range b {
		b[i] = "abcdefghijklmnopqrstuvwxyz0123456789_-.~ABZ"[s.Intn(43)]
	}
	return string(b)
}
