package gen

import (
	"fmt"
	"reflect"
	"sort"
	"strings"
)

// Render prints a value deeply (through pointers, without addresses, including unexported fields),
// so that two renderings are equal iff the values are deeply equal up to nil-vs-empty distinctions,
// which it keeps.
func Render(v reflect.Value) string {
	var sb strings.Builder
	render(&sb, v, 0)
	return sb.String()
}

func render(sb *strings.Builder, v reflect.Value, depth int) {
	if !v.IsValid() {
		sb.WriteString("<invalid>")
		return
	}
	if depth > 60 {
		sb.WriteString("<deep>")
		return
	}
	switch v.Kind() {
	case reflect.Ptr:
		if v.IsNil() {
			sb.WriteString("nil")
			return
		}
		sb.WriteByte('&')
		render(sb, v.Elem(), depth+1)
	case reflect.Interface:
		if v.IsNil() {
			sb.WriteString("nil-iface")
			return
		}
		sb.WriteString("(" + v.Elem().Type().String() + ")")
		render(sb, v.Elem(), depth+1)
	case reflect.Struct:
		sb.WriteByte('{')
		for i := 0; i < v.NumField(); i++ {
			if i > 0 {
				sb.WriteByte(' ')
			}
			sb.WriteString(v.Type().Field(i).Name + ":")
			render(sb, v.Field(i), depth+1)
		}
		sb.WriteByte('}')
	case reflect.Slice:
		if v.IsNil() {
			sb.WriteString("nil-slice")
			return
		}
		fallthrough
	case reflect.Array:
		sb.WriteByte('[')
		for i := 0; i < v.Len(); i++ {
			if i > 0 {
				sb.WriteByte(' ')
			}
			render(sb, v.Index(i), depth+1)
		}
		sb.WriteByte(']')
	case reflect.Map:
		if v.IsNil() {
			sb.WriteString("nil-map")
			return
		}
		var items []string
		for _, k := range v.MapKeys() {
			var kb, vb strings.Builder
			render(&kb, k, depth+1)
			render(&vb, v.MapIndex(k), depth+1)
			items = append(items, kb.String()+"="+vb.String())
		}
		sort.Strings(items)
		sb.WriteString("map[" + strings.Join(items, " ") + "]")
	case reflect.String:
		fmt.Fprintf(sb, "%q", v.String())
	case reflect.Bool:
		fmt.Fprintf(sb, "%v", v.Bool())
	case reflect.Int, reflect.Int8, reflect.Int16, reflect.Int32, reflect.Int64:
		fmt.Fprintf(sb, "%d", v.Int())
	case reflect.Uint, reflect.Uint8, reflect.Uint16, reflect.Uint32, reflect.Uint64, reflect.Uintptr:
		fmt.Fprintf(sb, "%d", v.Uint())
	case reflect.Float32, reflect.Float64:
		fmt.Fprintf(sb, "%v", v.Float())
	default:
		fmt.Fprintf(sb, "<%s>", v.Kind())
	}
}
