// Package gen holds the type grammar (TypeSpec), its reflect realisation, the leaf library of
// hand-written named types with methods, and deterministic value construction from recorded draws.
package gen

import (
	stdjson "encoding/json"
	"fmt"
	"reflect"
	"strings"
	"time"
	"unicode"

	"pgregory.net/rapid"
)

// TypeSpec is a JSON-serialisable description of a Go type.
type TypeSpec struct {
	K      string      `json:"k"`                // kind name, or "leaf:<Name>"
	Elem   *TypeSpec   `json:"elem,omitempty"`   // ptr / slice / array / map value
	Key    *TypeSpec   `json:"key,omitempty"`    // map key
	N      int         `json:"n,omitempty"`      // array length
	Fields []FieldSpec `json:"fields,omitempty"` // struct
}

type FieldSpec struct {
	Name     string    `json:"name"`
	Tag      string    `json:"tag,omitempty"` // value of the json tag; "" = no tag at all
	HasTag   bool      `json:"hastag,omitempty"`
	T        *TypeSpec `json:"t"`
	Embedded bool      `json:"emb,omitempty"`
	Unexp    bool      `json:"unexp,omitempty"`
}

var prims = map[string]reflect.Type{
	"bool": reflect.TypeOf(false), "int": reflect.TypeOf(int(0)), "int8": reflect.TypeOf(int8(0)), "int16": reflect.TypeOf(int16(0)),
	"int32": reflect.TypeOf(int32(0)), "int64": reflect.TypeOf(int64(0)), "uint": reflect.TypeOf(uint(0)), "uint8": reflect.TypeOf(uint8(0)),
	"uint16": reflect.TypeOf(uint16(0)), "uint32": reflect.TypeOf(uint32(0)), "uint64": reflect.TypeOf(uint64(0)), "uintptr": reflect.TypeOf(uintptr(0)),
	"float32": reflect.TypeOf(float32(0)), "float64": reflect.TypeOf(float64(0)), "string": reflect.TypeOf(""),
	"bytes": reflect.TypeOf([]byte(nil)), "number": reflect.TypeOf(stdjson.Number("")), "raw": reflect.TypeOf(stdjson.RawMessage(nil)),
	"time": reflect.TypeOf(time.Time{}), "iface": reflect.TypeOf((*interface{})(nil)).Elem(),
}

var PrimNames = []string{"bool", "int", "int8", "int16", "int32", "int64", "uint", "uint8", "uint16", "uint32", "uint64", "uintptr",
	"float32", "float64", "string", "bytes", "number", "raw", "time", "iface"}

const pkgPath = "verif/harness/gen"

// Type realises the spec with reflect.
func (s *TypeSpec) Type() reflect.Type {
	if t, ok := prims[s.K]; ok {
		return t
	}
	if strings.HasPrefix(s.K, "leaf:") {
		t, ok := Leaves[s.K[5:]]
		if !ok {
			panic("unknown leaf " + s.K)
		}
		return t
	}
	switch s.K {
	case "ptr":
		return reflect.PointerTo(s.Elem.Type())
	case "slice":
		return reflect.SliceOf(s.Elem.Type())
	case "array":
		return reflect.ArrayOf(s.N, s.Elem.Type())
	case "map":
		return reflect.MapOf(s.Key.Type(), s.Elem.Type())
	case "struct":
		fs := make([]reflect.StructField, 0, len(s.Fields))
		for _, f := range s.Fields {
			sf := reflect.StructField{Name: f.Name, Type: f.T.Type(), Anonymous: f.Embedded}
			if f.Unexp {
				sf.PkgPath = pkgPath
			}
			if f.HasTag {
				sf.Tag = reflect.StructTag(`json:` + quoteTag(f.Tag))
			}
			fs = append(fs, sf)
		}
		return reflect.StructOf(fs)
	}
	panic("bad TypeSpec kind " + s.K)
}

func quoteTag(s string) string {
	// struct tag values are Go string literals
	return fmt.Sprintf("%q", s)
}

// String renders the spec compactly (Go-like syntax) for messages and hashing.
func (s *TypeSpec) String() string {
	switch s.K {
	case "ptr":
		return "*" + s.Elem.String()
	case "slice":
		return "[]" + s.Elem.String()
	case "array":
		return fmt.Sprintf("[%d]%s", s.N, s.Elem.String())
	case "map":
		return "map[" + s.Key.String() + "]" + s.Elem.String()
	case "struct":
		var sb strings.Builder
		sb.WriteString("struct{")
		for i, f := range s.Fields {
			if i > 0 {
				sb.WriteString("; ")
			}
			if f.Embedded {
				sb.WriteString("(emb)")
			}
			sb.WriteString(f.Name + " " + f.T.String())
			if f.HasTag {
				sb.WriteString(" `" + f.Tag + "`")
			}
		}
		sb.WriteString("}")
		return sb.String()
	}
	return s.K
}

// Nodes counts the nodes of the spec.
func (s *TypeSpec) Nodes() int {
	n := 1
	if s.Elem != nil {
		n += s.Elem.Nodes()
	}
	if s.Key != nil {
		n += s.Key.Nodes()
	}
	for _, f := range s.Fields {
		n += f.T.Nodes()
	}
	return n
}

// Walk calls f on every node (pre-order).
func (s *TypeSpec) Walk(f func(*TypeSpec)) {
	f(s)
	if s.Elem != nil {
		s.Elem.Walk(f)
	}
	if s.Key != nil {
		s.Key.Walk(f)
	}
	for _, fl := range s.Fields {
		fl.T.Walk(f)
	}
}

// Has reports whether some node satisfies p.
func (s *TypeSpec) Has(p func(*TypeSpec) bool) bool {
	found := false
	s.Walk(func(n *TypeSpec) {
		if p(n) {
			found = true
		}
	})
	return found
}

// Composite reports whether the kind is a container kind.
func (s *TypeSpec) Composite() bool {
	switch s.K {
	case "ptr", "slice", "array", "map", "struct":
		return true
	}
	return false
}

// ---------------------------------------------------------------------------------------------
// generator

// TypeCfg selects the features of the grammar a check wants.
type TypeCfg struct {
	MaxDepth   int
	MaxFields  int
	Prims      []string                                  // allowed primitive kinds (default: all)
	Leaves     []string                                  // allowed leaf-library types ("" = none)
	KeyKinds   []string                                  // allowed map key kinds: prim names or "leaf:<Name>"
	Tags       bool                                      // draw struct tags
	StringTag  bool                                      // allow ",string"
	Embedded   bool                                      // allow embedded structs
	Unexported bool                                      // allow unexported fields
	PtrDepth   int                                       // max consecutive pointer levels
	BigArrays  bool                                      // allow array lengths 17, 64
	ElemFilter func(parent string, child *TypeSpec) bool // optional veto on a child under a parent kind
	NoIface    bool
	FieldNames []string
	Wide       bool // sometimes 9..17 fields (bitmap key matcher widths 8/16/none)
	NoDashTag  bool // never "-" tags
}

var DefaultKeyKinds = []string{"string", "string", "string", "int", "int8", "int16", "int32", "int64", "uint", "uint8", "uint16", "uint32", "uint64", "uintptr", "leaf:NStr", "leaf:NInt"}

func DefaultTypeCfg() TypeCfg {
	return TypeCfg{MaxDepth: 4, MaxFields: 6, KeyKinds: DefaultKeyKinds, Tags: true, StringTag: true, Embedded: true, Unexported: true, PtrDepth: 3}
}

var fieldNames = []string{"A", "B", "C", "D", "Ab", "AB", "X1", "Foo", "Bar_", "Z", "Name", "ID", "Aa"}
var wideNames = []string{"F00", "F01", "F02", "F03", "F04", "F05", "F06", "F07", "F08", "F09", "F10", "F11", "F12", "F13", "F14", "F15", "F16", "F17", "F18", "F19",
	"Alpha", "Beta", "Gamma", "Delta", "Epsilon", "Zeta", "Eta", "Theta", "Iota", "Kappa", "Lambda", "Mu", "A", "B", "Ab", "AB"}
var unexpNames = []string{"a", "b", "x", "foo"}

// ValidTagName is encoding/json's isValidTag: a tag name made of letters, digits and the listed punctuation.
func ValidTagName(s string) bool {
	if s == "" {
		return false
	}
	for _, c := range s {
		switch {
		case strings.ContainsRune("!#$%&()*+-./:;<=>?@[]^_{|}~ ", c):
		case !unicode.IsLetter(c) && !unicode.IsDigit(c):
			return false
		}
	}
	return true
}

// TagName splits a tag into the name encoding/json uses ("" = none or invalid: the Go name applies) and its options.
func TagName(tag string) (name, opts string) {
	name = tag
	if i := strings.IndexByte(tag, ','); i >= 0 {
		name, opts = tag[:i], tag[i:]
	}
	if !ValidTagName(name) {
		name = ""
	}
	return
}

var tagNames = []string{"a", "b", "A", "x", "foo", "a<b", "é", "name", "x-y", "_", "1", "Ab", "ab", "a b", "-",
	// every punctuation character encoding/json allows in a name, and some it does not (then the Go name is used)
	"a;b", "a:b", "p.q", "a/b", "x!", "(y)", "[z]", "k=v", "a@b", "q?", "a~b", "h#", "$d", "%p", "s*", "t+", "u^", "{w}", "v|w", "a&b", "g>h",
	"a\\b", "a'b", "a`b"}

func (c TypeCfg) prims() []string {
	if len(c.Prims) > 0 {
		return c.Prims
	}
	if c.NoIface {
		return PrimNames[:len(PrimNames)-1]
	}
	return PrimNames
}

// GenType draws a type.
func GenType(t *rapid.T, c TypeCfg) *TypeSpec {
	return genType(t, c, 0, 0, "")
}

func genType(t *rapid.T, c TypeCfg, depth, ptrs int, parent string) *TypeSpec {
	for try := 0; ; try++ {
		s := genType1(t, c, depth, ptrs)
		if c.ElemFilter == nil || parent == "" || c.ElemFilter(parent, s) || try > 20 {
			return s
		}
	}
}

func genType1(t *rapid.T, c TypeCfg, depth, ptrs int) *TypeSpec {
	choice := 0
	if depth < c.MaxDepth {
		choice = rapid.IntRange(0, 11).Draw(t, "tkind")
	} else {
		choice = rapid.IntRange(0, 3).Draw(t, "tkindLeaf")
	}
	switch choice {
	case 0, 1, 2:
		return &TypeSpec{K: rapid.SampledFrom(c.prims()).Draw(t, "prim")}
	case 3:
		if len(c.Leaves) > 0 {
			return &TypeSpec{K: "leaf:" + rapid.SampledFrom(c.Leaves).Draw(t, "leaf")}
		}
		return &TypeSpec{K: rapid.SampledFrom(c.prims()).Draw(t, "prim")}
	case 4, 5:
		if ptrs >= c.PtrDepth {
			return &TypeSpec{K: rapid.SampledFrom(c.prims()).Draw(t, "prim")}
		}
		return &TypeSpec{K: "ptr", Elem: genType(t, c, depth+1, ptrs+1, "ptr")}
	case 6:
		return &TypeSpec{K: "slice", Elem: genType(t, c, depth+1, 0, "slice")}
	case 7:
		n := rapid.IntRange(0, 4).Draw(t, "alen")
		if c.BigArrays && rapid.IntRange(0, 9).Draw(t, "abig") == 0 {
			n = rapid.SampledFrom([]int{17, 64}).Draw(t, "alenbig")
		}
		return &TypeSpec{K: "array", N: n, Elem: genType(t, c, depth+1, 0, "array")}
	case 8:
		k := rapid.SampledFrom(c.KeyKinds).Draw(t, "mapkey")
		return &TypeSpec{K: "map", Key: &TypeSpec{K: k}, Elem: genType(t, c, depth+1, 0, "map")}
	default:
		return genStruct(t, c, depth, 0)
	}
}

func genStruct(t *rapid.T, c TypeCfg, depth int, embDepth int) *TypeSpec {
	n := rapid.IntRange(0, c.MaxFields).Draw(t, "nfields")
	s := &TypeSpec{K: "struct"}
	used := map[string]bool{}
	names := fieldNames
	if len(c.FieldNames) > 0 {
		names = c.FieldNames
	}
	if c.Wide && depth <= 1 && rapid.IntRange(0, 4).Draw(t, "wide") == 0 {
		n = rapid.IntRange(8, 18).Draw(t, "nwide")
		names = wideNames
	}
	for i := 0; i < n; i++ {
		var f FieldSpec
		if c.Embedded && embDepth < 3 && rapid.IntRange(0, 7).Draw(t, "emb") == 0 {
			inner := genStruct(t, c, depth+1, embDepth+1)
			f = FieldSpec{Name: fmt.Sprintf("E%d", i), Embedded: true, T: inner}
			if rapid.Bool().Draw(t, "embptr") {
				f.T = &TypeSpec{K: "ptr", Elem: inner}
			}
			if c.Tags && rapid.IntRange(0, 5).Draw(t, "embtag") == 0 {
				f.HasTag, f.Tag = true, rapid.SampledFrom(tagNames).Draw(t, "tagname")
			}
		} else {
			f.T = genType(t, c, depth+1, 0, "struct")
			if c.Unexported && rapid.IntRange(0, 9).Draw(t, "unexp") == 0 {
				f.Name, f.Unexp = rapid.SampledFrom(unexpNames).Draw(t, "uname"), true
			} else {
				f.Name = rapid.SampledFrom(names).Draw(t, "fname")
			}
			if c.Tags {
				f.HasTag, f.Tag = genTag(t, c)
			}
		}
		if used[f.Name] {
			continue
		}
		used[f.Name] = true
		s.Fields = append(s.Fields, f)
	}
	return s
}

func genTag(t *rapid.T, c TypeCfg) (bool, string) {
	switch rapid.IntRange(0, 9).Draw(t, "tagkind") {
	case 0, 1, 2, 3:
		return false, ""
	case 4:
		if !c.NoDashTag {
			return true, "-"
		}
	case 5:
		return true, "-,"
	}
	tag := ""
	if rapid.IntRange(0, 2).Draw(t, "rename") > 0 {
		tag = rapid.SampledFrom(tagNames).Draw(t, "tagname")
		if tag == "-" {
			tag = "x"
		}
	}
	if rapid.IntRange(0, 2).Draw(t, "omit") == 0 {
		tag += ",omitempty"
	}
	if c.StringTag && rapid.IntRange(0, 3).Draw(t, "str") == 0 {
		tag += ",string"
	}
	return true, tag
}
