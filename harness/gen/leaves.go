package gen

import (
	"bytes"
	stdjson "encoding/json"
	"fmt"
	"reflect"
	"strconv"
)

// The leaf library: hand-written named types with (un)marshal methods so that a marshaler can sit in
// any position of a reflect-built type.  All methods are pure and deterministic; they never call
// go-json.  Marshal methods render a tagged envelope through encoding/json of a method-less alias.

// --- value-receiver MarshalJSON on a struct
type ValMJ struct {
	A int
	S string
}

func (v ValMJ) MarshalJSON() ([]byte, error) {
	return []byte(fmt.Sprintf(`{"ValMJ":[%d,%s]}`, v.A, strconv.Quote(asciiOnly(v.S)))), nil
}

// --- pointer-receiver MarshalJSON on a struct
type PtrMJ struct {
	A int
	S string
}

func (v *PtrMJ) MarshalJSON() ([]byte, error) {
	if v == nil {
		return []byte(`"PtrMJ-nil"`), nil
	}
	return []byte(fmt.Sprintf(`{"PtrMJ":[%d,%s]}`, v.A, strconv.Quote(asciiOnly(v.S)))), nil
}

// --- value-receiver MarshalText on a struct
type ValMT struct {
	A int
	S string
}

func (v ValMT) MarshalText() ([]byte, error) {
	return []byte(fmt.Sprintf("ValMT<%d&%s>", v.A, v.S)), nil
}

// --- pointer-receiver MarshalText on a struct
type PtrMT struct {
	A int
	S string
}

func (v *PtrMT) MarshalText() ([]byte, error) {
	if v == nil {
		return []byte("PtrMT-nil"), nil
	}
	return []byte(fmt.Sprintf("PtrMT<%d&%s>", v.A, v.S)), nil
}

// --- int-kinded with value MarshalJSON
type IntMJ int

func (v IntMJ) MarshalJSON() ([]byte, error) { return []byte(fmt.Sprintf(`{"IntMJ":%d}`, int(v))), nil }

// --- string-kinded with value MarshalText
type StrMT string

func (v StrMT) MarshalText() ([]byte, error) { return []byte("StrMT:" + string(v)), nil }

// --- slice-kinded with value MarshalJSON
type SliceMJ []int

func (v SliceMJ) MarshalJSON() ([]byte, error) {
	return []byte(fmt.Sprintf(`{"SliceMJ":%d}`, len(v))), nil
}

// --- map-kinded with value MarshalJSON
type MapMJ map[string]int

func (v MapMJ) MarshalJSON() ([]byte, error) {
	return []byte(fmt.Sprintf(`{"MapMJ":%d}`, len(v))), nil
}

// --- bool-kinded with value MarshalText
type BoolMT bool

func (v BoolMT) MarshalText() ([]byte, error) {
	if v {
		return []byte("yes"), nil
	}
	return []byte("no"), nil
}

// --- named plain types (no methods)
type NStr string
type NInt int
type NBytes []byte
type NSlice []int
type NMap map[string]int
type NStruct struct {
	A int    `json:"a"`
	B string `json:"b,omitempty"`
}

// --- map key types
type KeyMT struct{ K int } // TextMarshaler struct key

func (k KeyMT) MarshalText() ([]byte, error) { return []byte(fmt.Sprintf("k%03d", k.K)), nil }
func (k *KeyMT) UnmarshalText(b []byte) error {
	if len(b) < 2 || b[0] != 'k' {
		return fmt.Errorf("bad KeyMT %q", b)
	}
	n, err := strconv.Atoi(string(b[1:]))
	k.K = n
	return err
}

type IntKeyMT int // int-kinded TextMarshaler key

func (k IntKeyMT) MarshalText() ([]byte, error) { return []byte(fmt.Sprintf("ik%d", int(k))), nil }

// --- embeddable named structs with conflicting names
type EmbA struct {
	A int
	X string `json:"x"`
}
type EmbB struct {
	A int `json:"A"`
	Y *int
}
type EmbC struct {
	X  string `json:"x"`
	Ab bool
}

// --- round-trip pair: MarshalJSON + UnmarshalJSON
type RoundMJ struct {
	N int
	S string
}

func (v RoundMJ) MarshalJSON() ([]byte, error) {
	var buf bytes.Buffer
	e := stdjson.NewEncoder(&buf)
	e.SetEscapeHTML(false) // the method itself never spells < > & as escapes
	if err := e.Encode([]interface{}{v.N, v.S}); err != nil {
		return nil, err
	}
	return bytes.TrimSuffix(buf.Bytes(), []byte("\n")), nil
}
func (v *RoundMJ) UnmarshalJSON(b []byte) error {
	var a []interface{}
	if err := stdjson.Unmarshal(b, &a); err != nil {
		return fmt.Errorf("RoundMJ.UnmarshalJSON received %q: %v", b, err)
	}
	if len(a) != 2 {
		return fmt.Errorf("RoundMJ: want 2 elements")
	}
	f, ok1 := a[0].(float64)
	s, ok2 := a[1].(string)
	if !ok1 || !ok2 {
		return fmt.Errorf("RoundMJ: bad element types")
	}
	v.N, v.S = int(f), s
	return nil
}

// --- recording Unmarshaler / TextUnmarshaler (pointer receivers)
type RecUJ struct {
	Calls int
	Got   []string
}

func (r *RecUJ) UnmarshalJSON(b []byte) error {
	r.Calls++
	r.Got = append(r.Got, string(b))
	if bytes.Contains(b, []byte(`"FAIL"`)) {
		return fmt.Errorf("RecUJ refuses")
	}
	return nil
}

type RecUT struct {
	Calls int
	Got   []string
}

func (r *RecUT) UnmarshalText(b []byte) error {
	r.Calls++
	r.Got = append(r.Got, string(b))
	if bytes.Equal(b, []byte("FAIL")) {
		return fmt.Errorf("RecUT refuses")
	}
	return nil
}

// int-kinded TextUnmarshaler
type IntUT int

func (r *IntUT) UnmarshalText(b []byte) error {
	*r = IntUT(len(b))
	return nil
}

func asciiOnly(s string) string {
	b := []byte(s)
	for i, c := range b {
		if c < 0x20 || c > 0x7e {
			b[i] = '?'
		}
	}
	return string(b)
}

// Leaves maps leaf names to their types.
var Leaves = map[string]reflect.Type{
	"ValMJ": reflect.TypeOf(ValMJ{}), "PtrMJ": reflect.TypeOf(PtrMJ{}), "ValMT": reflect.TypeOf(ValMT{}), "PtrMT": reflect.TypeOf(PtrMT{}),
	"IntMJ": reflect.TypeOf(IntMJ(0)), "StrMT": reflect.TypeOf(StrMT("")), "SliceMJ": reflect.TypeOf(SliceMJ(nil)), "MapMJ": reflect.TypeOf(MapMJ(nil)),
	"BoolMT": reflect.TypeOf(BoolMT(false)),
	"NStr":   reflect.TypeOf(NStr("")), "NInt": reflect.TypeOf(NInt(0)), "NBytes": reflect.TypeOf(NBytes(nil)), "NSlice": reflect.TypeOf(NSlice(nil)),
	"NMap": reflect.TypeOf(NMap(nil)), "NStruct": reflect.TypeOf(NStruct{}),
	"KeyMT": reflect.TypeOf(KeyMT{}), "IntKeyMT": reflect.TypeOf(IntKeyMT(0)),
	"EmbA": reflect.TypeOf(EmbA{}), "EmbB": reflect.TypeOf(EmbB{}), "EmbC": reflect.TypeOf(EmbC{}),
	"RoundMJ": reflect.TypeOf(RoundMJ{}), "RecUJ": reflect.TypeOf(RecUJ{}), "RecUT": reflect.TypeOf(RecUT{}), "IntUT": reflect.TypeOf(IntUT(0)),
}

// Leaf groups.
var (
	PlainLeaves     = []string{"NStr", "NInt", "NBytes", "NSlice", "NMap", "NStruct"}
	MarshalerLeaves = []string{"ValMJ", "PtrMJ", "ValMT", "PtrMT", "IntMJ", "StrMT", "SliceMJ", "MapMJ", "BoolMT"}
	UnmarshalLeaves = []string{"RecUJ", "RecUT", "IntUT", "RoundMJ"}
	EmbLeaves       = []string{"EmbA", "EmbB", "EmbC"}
)

// --- hostile marshalers (C03): return configured bytes / errors
type HostMJ struct{ Out string }

func (h HostMJ) MarshalJSON() ([]byte, error) {
	if h.Out == "!err" {
		return nil, fmt.Errorf("HostMJ refuses")
	}
	return []byte(h.Out), nil
}

type HostMT struct{ Out string }

func (h HostMT) MarshalText() ([]byte, error) {
	if h.Out == "!err" {
		return nil, fmt.Errorf("HostMT refuses")
	}
	return []byte(h.Out), nil
}

func init() {
	Leaves["HostMJ"] = reflect.TypeOf(HostMJ{})
	Leaves["HostMT"] = reflect.TypeOf(HostMT{})
}

// Marshaler outputs by class.
var (
	HostValid   = []string{`1`, `"x"`, `null`, `true`, `{"a":[1,2,{"b":null}]}`, ` { "a" : 1 , "b" : [ ] } `, "[1,\n\t2]", `"a<b>&c"`, `"é "`, `-0.5e+3`, `[]`, `{}`, `"𝄞"`, "\"é\"", `[[[[]]]]`, `{"":""}`}
	HostLenient = []string{"\"a\x01b\"", "\"tab\tin\"", `"\x"`, `"\u12"`, `"\uZZZZ"`, `{"a":"\q"}`, "[\"\n\"]", "{\"k\x1f\":1}"}
	HostBadUTF8 = []string{"\"\xff\"", "\"\xc3\"", "[\"a\xe2\x82\"]", "{\"k\xed\xa0\x80\":1}"}
	HostBroken  = []string{`01`, `1.`, `-.5`, `[1,02]`, `+1`, `.5`, `1e`, `--1`, ``, ` `, `{`, `[1,`, `[1 2]`, `{"a"}`, `{"a":}`, `1 2`, `nul`, `tru`, `[1]]`, `{"a":1,}`, `[,]`, `"unterminated`, `{a:1}`, `'x'`, `}`, "\x00", `[1]x`, `{"a":1}}`, `"\ud800"x`, `NaN`, `Infinity`}
)
