package c18

import (
	"bytes"
	"encoding/hex"
	stdjson "encoding/json"
	"fmt"
	"math/big"
	"os"
	"reflect"
	"strconv"
	"strings"
	"testing"

	gojson "github.com/goccy/go-json"
	"pgregory.net/rapid"

	_ "verif/harness/dec"
	"verif/harness/jsongen"
	"verif/harness/known"
	"verif/harness/ref"
	"verif/harness/rt"
)

const prop = "C18"

// known findings of this property
const (
	kfLenient = "KF-C18-lenient-scanners"
	kfHTMLNum = "KF-C18-htmlescape-reformats"
)

func TestMain(m *testing.M) {
	code := m.Run()
	rt.Flush()
	os.Exit(code)
}

type Case struct {
	Hex     string `json:"hex"`
	Text    string `json:"text"`
	Prefix  string `json:"prefix"`
	Indent  string `json:"indent"`
	Preload string `json:"preload"`
}

var prefixes = []string{"", "", " ", "\t", "→ ", ">>", "        "}
var indents = []string{"  ", "\t", "", " ", "→", "    "}
var preloads = []string{"", "", "abc", "{\"k\":1}\n", strings.Repeat("x", 600)}

func result(f func(*bytes.Buffer) error, preload string) (out string, err error, pv any) {
	var buf bytes.Buffer
	buf.WriteString(preload)
	pv = rt.Guard(func() { err = f(&buf) })
	return buf.String(), err, pv
}

// checkText applies all relations to one text.
func checkText(c *Case, b []byte) string {
	valid := ref.Valid(b) && ref.Depth(b) <= 10000 // encoding/json limits nesting to 10000
	if valid != stdjson.Valid(b) {
		rt.Count("harness_error", 1)
		return "harness: recogniser and encoding/json.Valid disagree"
	}
	lenient := !valid && rt.Active(kfLenient) && lenientValid(b)
	// ---- Compact
	wantC, werrC, _ := result(func(d *bytes.Buffer) error { return stdjson.Compact(d, b) }, c.Preload)
	gotC, gerrC, pv := result(func(d *bytes.Buffer) error { return gojson.Compact(d, b) }, c.Preload)
	switch {
	case pv != nil:
		return fmt.Sprintf("Compact panics: %v", pv)
	case (werrC == nil) != (gerrC == nil):
		if lenient && gerrC == nil {
			rt.KnownHit(kfLenient)
			return ""
		}
		return fmt.Sprintf("Compact: encoding/json err=%v, go-json err=%v", werrC, gerrC)
	case werrC == nil && gotC != wantC:
		return fmt.Sprintf("Compact appends different bytes:\n got  %q\n want %q", clip(gotC), clip(wantC))
	case gerrC != nil && gotC != c.Preload:
		return fmt.Sprintf("Compact failed but changed the destination buffer: %q (was %q)", clip(gotC), clip(c.Preload))
	}
	// ---- Indent
	wantI, werrI, _ := result(func(d *bytes.Buffer) error { return stdjson.Indent(d, b, c.Prefix, c.Indent) }, c.Preload)
	gotI, gerrI, pv := result(func(d *bytes.Buffer) error { return gojson.Indent(d, b, c.Prefix, c.Indent) }, c.Preload)
	switch {
	case pv != nil:
		return fmt.Sprintf("Indent panics: %v", pv)
	case (werrI == nil) != (gerrI == nil):
		if lenient && gerrI == nil {
			rt.KnownHit(kfLenient)
			return ""
		}
		return fmt.Sprintf("Indent: encoding/json err=%v, go-json err=%v", werrI, gerrI)
	case werrI == nil && gotI != wantI:
		return fmt.Sprintf("Indent(prefix %q, indent %q) appends different bytes:\n got  %q\n want %q", c.Prefix, c.Indent, clip(gotI), clip(wantI))
	case gerrI != nil && gotI != c.Preload:
		return fmt.Sprintf("Indent failed but changed the destination buffer: %q", clip(gotI))
	}
	if !valid {
		// HTMLEscape on an invalid text must leave the buffer alone (it has no error result)
		gotH, _, pv := result(func(d *bytes.Buffer) error { gojson.HTMLEscape(d, b); return nil }, c.Preload)
		if pv != nil {
			return fmt.Sprintf("HTMLEscape panics: %v", pv)
		}
		if gotH != c.Preload && !lenient && !(rt.Active("KF-C05-stream-separator-skipped") || rt.Active("KF-C05-stream-nul-ends-input")) {
			return fmt.Sprintf("HTMLEscape of an invalid text changed the destination buffer: %q", clip(gotH))
		}
		return ""
	}
	// ---- idempotence
	out := []byte(gotC[len(c.Preload):])
	again, err, _ := result(func(d *bytes.Buffer) error { return gojson.Compact(d, out) }, "")
	if err != nil || again != string(out) {
		return fmt.Sprintf("Compact is not idempotent: Compact(%q) = %q err=%v", clip(string(out)), clip(again), err)
	}
	outI := []byte(gotI[len(c.Preload):])
	againI, err, _ := result(func(d *bytes.Buffer) error { return gojson.Indent(d, outI, c.Prefix, c.Indent) }, "")
	if strings.TrimSpace(c.Prefix) == "" && strings.TrimSpace(c.Indent) == "" { // a non-whitespace prefix makes the output non-JSON
		if err != nil || againI != string(outI) {
			return fmt.Sprintf("Indent is not idempotent: Indent(%q) = %q err=%v", clip(string(outI)), clip(againI), err)
		}
	}
	// ---- HTMLEscape
	gotH, _, pv := result(func(d *bytes.Buffer) error { gojson.HTMLEscape(d, b); return nil }, c.Preload)
	if pv != nil {
		return fmt.Sprintf("HTMLEscape panics: %v", pv)
	}
	if !strings.HasPrefix(gotH, c.Preload) {
		return "HTMLEscape changed the existing buffer contents"
	}
	esc := []byte(gotH[len(c.Preload):])
	if len(esc) == 0 && hasOutOfRangeNumber(b) {
		rt.Label("htmlescape-number-out-of-range") // decodes through float64/Number: see DESIGN (not asserted)
		return ""
	}
	if !ref.Valid(esc) {
		return fmt.Sprintf("HTMLEscape output is not valid JSON: %q", clip(string(esc)))
	}
	if bytes.ContainsAny(esc, "<>&") || bytes.Contains(esc, []byte(string(rune(0x2028)))) || bytes.Contains(esc, []byte(string(rune(0x2029)))) {
		return fmt.Sprintf("HTMLEscape output contains a raw <, >, &, U+2028 or U+2029: %q", clip(string(esc)))
	}
	if !sameValue(b, esc) {
		return fmt.Sprintf("HTMLEscape output denotes a different value:\n in  %q\n out %q", clip(string(b)), clip(string(esc)))
	}
	// ---- Valid on a valid text
	if !gojson.Valid(b) {
		if rt.Active("KF-C05-valid-float-range") && hasOutOfRangeNumber(b) {
			rt.KnownHit("KF-C05-valid-float-range")
		} else {
			return "Valid reports false for a valid text"
		}
	}
	return ""
}

// sameValue: both texts denote the same JSON value (objects as last-wins maps, numbers by their exact
// rational value).
func sameValue(a, b []byte) bool {
	var x, y interface{}
	da := stdjson.NewDecoder(bytes.NewReader(a))
	da.UseNumber()
	db := stdjson.NewDecoder(bytes.NewReader(b))
	db.UseNumber()
	if da.Decode(&x) != nil || db.Decode(&y) != nil {
		return false
	}
	return reflect.DeepEqual(normNumbers(x), normNumbers(y))
}

func normNumbers(v interface{}) interface{} {
	switch t := v.(type) {
	case stdjson.Number:
		// exact value: the escaped text must denote the same number, not merely the same float64
		txt := string(t)
		if k := strings.IndexAny(txt, "eE"); k >= 0 {
			if e, err := strconv.Atoi(txt[k+1:]); err != nil || e > 4000 || e < -4000 {
				return "text:" + strings.ToLower(txt)
			}
		}
		if r, ok := new(big.Rat).SetString(txt); ok {
			return "rat:" + r.RatString()
		}
		return "text:" + txt
	case []interface{}:
		for i := range t {
			t[i] = normNumbers(t[i])
		}
	case map[string]interface{}:
		for k := range t {
			t[k] = normNumbers(t[k])
		}
	}
	return v
}

func hasOutOfRangeNumber(b []byte) bool {
	toks, err := ref.Tokens(b)
	if err != nil {
		return false
	}
	for _, t := range toks {
		if t.Kind == ref.TNumber {
			if _, err := strconv.ParseFloat(string(b[t.Start:t.End]), 64); err != nil {
				return true
			}
		}
	}
	return false
}

// lenientValid: selector of kfLenient — the text becomes valid when number tokens may be any run of
// number characters strconv.ParseFloat accepts, raw control characters are allowed inside strings and
// any character may follow a backslash.
func lenientValid(b []byte) bool {
	return ref.ValidRelaxed(b, ref.Relax{RawControl: true, BadEscape: true}) || ref.ValidRelaxed(b, ref.Relax{RawControl: true, BadEscape: true, ShortU: true})
}

func clip(s string) string {
	if len(s) > 400 {
		return s[:400] + "…"
	}
	return s
}

func runCase(sub string, c *Case, b []byte) string {
	rt.Journal(sub, func() string { x, _ := stdjson.Marshal(c); return string(x) })
	rt.Count("cases/"+sub, 1)
	msg := checkText(c, b)
	if msg == "" {
		return ""
	}
	c.Text = string(b)
	return rt.Fail(prop, sub, c, "%s\n text: %q", msg, clip(string(b)))
}

func TestCheck(t *testing.T) {
	n := rt.PerShard(rt.N(40000, 800000))
	rt.Rapid(t, "texts", n, func(t *rapid.T) {
		cfg := jsongen.DefaultCfg
		cfg.BigNumbers = true
		doc := jsongen.Gen(t, cfg).Render()
		c := &Case{Prefix: rapid.SampledFrom(prefixes).Draw(t, "prefix"), Indent: rapid.SampledFrom(indents).Draw(t, "indent"), Preload: rapid.SampledFrom(preloads).Draw(t, "preload")}
		mode := rapid.IntRange(0, 5).Draw(t, "mode")
		b := doc
		switch mode {
		case 0, 1: // valid as generated
			rt.Label("valid")
		case 2: // trailing / leading whitespace variants
			b = append(append([]byte(rapid.SampledFrom([]string{"", " ", "\n\t"}).Draw(t, "lead")), doc...), rapid.SampledFrom([]string{" ", "\n", " \n ", "\t\t", "\r\n"}).Draw(t, "trail")...)
			rt.Label("valid-outer-whitespace")
		default: // single-byte mutation
			if len(doc) > 0 {
				i := rapid.IntRange(0, len(doc)).Draw(t, "pos")
				a := rapid.SampledFrom(jsongen.MutAlphabet).Draw(t, "byte")
				m := make([]byte, 0, len(doc)+1)
				switch rapid.IntRange(0, 3).Draw(t, "mut") {
				case 0:
					if i < len(doc) {
						m = append(append(m, doc[:i]...), doc[i+1:]...)
					} else {
						m = append(m, doc[:len(doc)-1]...)
					}
				case 1:
					m = append(append(append(m, doc[:i]...), a), doc[i:]...)
				case 2:
					m = append(m, doc...)
					if i < len(m) {
						m[i] = a
					}
				default:
					m = append(m, doc[:i]...)
				}
				b = m
			}
			rt.Label("mutated")
		}
		c.Hex = hex.EncodeToString(b)
		if ref.Valid(b) {
			toks, _ := ref.Tokens(b)
			if len(toks) >= 5 {
				rt.NonTrivial(rt.Hash64(string(b), c.Prefix, c.Indent, c.Preload))
			}
		} else {
			rt.Label("invalid")
			rt.NonTrivial(rt.Hash64(string(b), c.Prefix, c.Indent, c.Preload))
		}
		if rt.WantSample("texts") {
			rt.Sample("texts", map[string]any{"text": clip(string(b)), "prefix": c.Prefix, "indent": c.Indent, "preload_len": len(c.Preload)})
		} else {
			rt.Sample("texts", nil)
		}
		if msg := runCase("texts", c, b); msg != "" {
			t.Fatalf("%s", msg)
		}
	})
	t.Run("depth", func(t *testing.T) {
		if rt.E.Shard != 0 {
			return
		}
		for _, n := range []int{9999, 10000, 10001, 20000} {
			for _, shape := range []string{"[", "{\"a\":", "mixed"} {
				var sb strings.Builder
				closers := make([]byte, 0, n)
				for i := 0; i < n; i++ {
					open := shape
					if shape == "mixed" {
						open = []string{"[", "{\"k\":"}[i%2]
					}
					sb.WriteString(open)
					if open == "[" {
						closers = append(closers, ']')
					} else {
						closers = append(closers, '}')
					}
				}
				sb.WriteString("1")
				for i := len(closers) - 1; i >= 0; i-- {
					sb.WriteByte(closers[i])
				}
				b := []byte(sb.String())
				c := &Case{Prefix: "", Indent: "", Preload: "p"}
				c.Hex = fmt.Sprintf("depth:%d:%s", n, shape)
				rt.Count("cases/depth", 1)
				rt.NonTrivial(rt.Hash64("depth", c.Hex))
				if msg := checkText(c, b); msg != "" {
					t.Error(rt.Fail(prop, "depth", c, "%s (nesting depth %d, shape %s)", msg, n, shape))
				}
			}
		}
		rt.Sample("depth", map[string]any{"depths": []int{9999, 10000, 10001, 20000}})
	})
}

func TestReplay(t *testing.T) {
	f, err := rt.LoadReplay()
	if err != nil {
		t.Fatal(err)
	}
	var c Case
	if err := stdjson.Unmarshal(f.Case, &c); err != nil {
		t.Fatal(err)
	}
	if strings.HasPrefix(c.Hex, "depth:") {
		t.Skip("depth cases are regenerated by the check itself")
	}
	b, err := hex.DecodeString(c.Hex)
	if err != nil {
		t.Fatal(err)
	}
	if msg := runCase("replay", &c, b); msg != "" {
		t.Fatal(msg)
	}
}

func TestWitness(t *testing.T) {
	known.Witnesses[kfLenient] = func() (bool, string) {
		accepts := func(b string) bool {
			var d bytes.Buffer
			return gojson.Compact(&d, []byte(b)) == nil
		}
		return accepts("\"a\x01\"") || accepts(`"`+"\\"+`x"`), "Compact accepts raw control / bad escape"
	}
	known.RunWitness()
}
