package c20

import (
	"bytes"
	stdjson "encoding/json"
	"fmt"
	"os"
	"reflect"
	"strings"
	"sync"
	"testing"

	gojson "github.com/goccy/go-json"
	"pgregory.net/rapid"

	_ "verif/harness/dec"
	"verif/harness/jsongen"
	"verif/harness/known"
	"verif/harness/ref"
	"verif/harness/rt"
)

const prop = "C20"

const kfRecursive = "KF-C20-recursive-descent-incomplete"

func TestMain(m *testing.M) {
	code := m.Run()
	rt.Flush()
	os.Exit(code)
}

type Case struct {
	Path string   `json:"path"`
	Doc  string   `json:"doc"`
	Hist []string `json:"history,omitempty"` // documents of a reuse history
}

func compactOf(b []byte) string {
	var buf bytes.Buffer
	if err := stdjson.Compact(&buf, b); err != nil {
		return "!" + string(b)
	}
	return buf.String()
}

// extract runs go-json and renders the result as compacted parts.
func extract(p *gojson.Path, doc []byte) (parts []string, err error, pv any) {
	pv = rt.Guard(func() {
		var res [][]byte
		res, err = p.Extract(doc)
		for _, r := range res {
			parts = append(parts, compactOf(r))
		}
	})
	return
}

// reference result: compacted source ranges of the selected nodes, in document order
func reference(doc []byte, sels []ref.Sel) (parts []string, consistent bool, ok bool) {
	root, err := ref.Parse(doc)
	if err != nil {
		return nil, false, false
	}
	nodes, consistent := ref.Eval(root, sels)
	for _, n := range nodes {
		parts = append(parts, compactOf(doc[n.Start:n.End]))
	}
	return parts, consistent, true
}

func hasDupKeys(n *ref.Node) bool {
	if n.Kind == 'o' {
		seen := map[string]bool{}
		for _, k := range n.Keys {
			if seen[k] {
				return true
			}
			seen[k] = true
		}
	}
	for _, e := range n.Elems {
		if hasDupKeys(e) {
			return true
		}
	}
	return false
}

// checkSemantics compares Extract / Unmarshal with the reference evaluation. "" = fine or outside the domain.
func checkSemantics(c *Case) string {
	sels, ok := ref.ParsePath(c.Path)
	if !ok {
		return ""
	}
	doc := []byte(c.Doc)
	p, err := gojson.CreatePath(c.Path)
	if err != nil {
		return fmt.Sprintf("CreatePath rejects a path of the documented grammar: %v", err)
	}
	want, consistent, valid := reference(doc, sels)
	got, gerr, pv := extract(p, doc)
	if pv != nil {
		return fmt.Sprintf("Extract panicked: %v", pv)
	}
	if !valid {
		return "" // the statement speaks of valid documents; for the rest only "no panic" is asserted
	}
	root, _ := ref.Parse(doc)
	if !consistent || hasDupKeys(root) {
		rt.Label("kind-mismatch-or-duplicate-keys(no-panic-only)")
		return ""
	}
	recursive := strings.Contains(c.Path, "..")
	fail := ""
	switch {
	case gerr != nil:
		fail = fmt.Sprintf("Extract failed (%v); the reference selects %q", gerr, want)
	case !reflect.DeepEqual(got, want) && !(len(got) == 0 && len(want) == 0):
		fail = fmt.Sprintf("Extract returned %q; the reference selects %q", got, want)
	}
	if fail == "" {
		// Path.Unmarshal decodes the same parts
		var v interface{}
		var uerr error
		if pv := rt.Guard(func() { uerr = p.Unmarshal(doc, &v) }); pv != nil {
			return fmt.Sprintf("Path.Unmarshal panicked: %v", pv)
		}
		var wantVals []interface{}
		for _, w := range want {
			var x interface{}
			stdjson.Unmarshal([]byte(w), &x)
			wantVals = append(wantVals, x)
		}
		gotVals, _ := v.([]interface{})
		if uerr != nil || !(len(gotVals) == 0 && len(wantVals) == 0) && !reflect.DeepEqual(gotVals, wantVals) {
			fail = fmt.Sprintf("Path.Unmarshal gives %v err=%v; the parts decode to %v", v, uerr, wantVals)
		}
	}
	if fail != "" && recursive && rt.Active(kfRecursive) {
		rt.KnownHit(kfRecursive)
		return ""
	}
	if len(sels) >= 2 && len(want) > 0 {
		rt.NonTrivial(rt.Hash64(c.Path, c.Doc))
	}
	return fail
}

// ---- path generation from a document

func names(n *ref.Node, out *[]string) {
	if n.Kind == 'o' {
		*out = append(*out, n.Keys...)
	}
	for _, e := range n.Elems {
		names(e, out)
	}
}

func genPath(t *rapid.T, root *ref.Node) string {
	var sb strings.Builder
	sb.WriteString("$")
	cur := root
	var all []string
	names(root, &all)
	okName := func(s string) bool { return s != "" && !strings.ContainsAny(s, ".[]$*'\"") }
	steps := rapid.IntRange(0, 5).Draw(t, "steps")
	for i := 0; i < steps; i++ {
		follow := rapid.IntRange(0, 9).Draw(t, "follow") < 8 && cur != nil
		switch {
		case follow && cur.Kind == 'o' && len(cur.Keys) > 0:
			k := rapid.IntRange(0, len(cur.Keys)-1).Draw(t, "key")
			name := cur.Keys[k]
			switch {
			case okName(name) && rapid.IntRange(0, 3).Draw(t, "style") > 0:
				sb.WriteString("." + name)
			case name != "" && !strings.ContainsAny(name, "'\"") && !strings.ContainsAny(name[:1], "[]$.*"):
				if rapid.Bool().Draw(t, "dq") {
					sb.WriteString(`."` + name + `"`)
				} else {
					sb.WriteString(`['` + name + `']`)
				}
			default:
				sb.WriteString(".zz")
				cur = nil
				continue
			}
			cur = cur.Elems[k]
		case follow && cur.Kind == 'a':
			switch rapid.IntRange(0, 3).Draw(t, "astyle") {
			case 0:
				sb.WriteString("[*]")
				if len(cur.Elems) > 0 {
					cur = cur.Elems[0]
				} else {
					cur = nil
				}
			default:
				i := rapid.IntRange(0, len(cur.Elems)+1).Draw(t, "idx")
				sb.WriteString(fmt.Sprintf("[%d]", i))
				if i < len(cur.Elems) {
					cur = cur.Elems[i]
				} else {
					cur = nil
				}
			}
		default:
			switch rapid.IntRange(0, 3).Draw(t, "other") {
			case 0:
				if len(all) > 0 {
					if n := rapid.SampledFrom(all).Draw(t, "rname"); okName(n) {
						sb.WriteString(".." + n)
						cur = nil
						continue
					}
				}
				sb.WriteString("..a")
			case 1:
				sb.WriteString(".nosuch")
			case 2:
				sb.WriteString("[7]")
			default:
				sb.WriteString("[*]")
			}
			cur = nil
		}
	}
	return sb.String()
}

func docCfg() jsongen.Cfg {
	c := jsongen.DefaultCfg
	c.MaxDepth, c.MaxElems = 4, 4
	c.KeyPool = []string{"a", "b", "c", "a.b", "x y", "k1", "é", "0", "A"}
	return c
}

func TestCheck(t *testing.T) {
	// (b) generated documents and paths derived from them
	rt.Rapid(t, "semantics", rt.PerShard(rt.N(400000, 6000000)), func(t *rapid.T) {
		node := jsongen.Gen(t, docCfg())
		doc := node.Render()
		root, err := ref.Parse(doc)
		if err != nil {
			t.Fatalf("harness: generated document does not parse: %v", err)
		}
		c := &Case{Doc: string(doc), Path: genPath(t, root)}
		if rapid.IntRange(0, 19).Draw(t, "truncate") == 0 && len(doc) > 2 {
			c.Doc = c.Doc[:rapid.IntRange(1, len(doc)-1).Draw(t, "cut")]
		}
		rt.Journal("semantics", func() string { x, _ := stdjson.Marshal(c); return string(x) })
		rt.Count("cases/semantics", 1)
		if strings.Contains(c.Path, "..") {
			rt.Label("recursive-descent")
		}
		if strings.Contains(c.Path, "[*]") {
			rt.Label("wildcard")
		}
		if strings.ContainsAny(c.Path, "'\"") {
			rt.Label("quoted-name")
		}
		if rt.WantSample("semantics") {
			rt.Sample("semantics", c)
		} else {
			rt.Sample("semantics", nil)
		}
		if msg := checkSemantics(c); msg != "" {
			t.Fatalf("%s", rt.Fail(prop, "semantics", c, "%s\n path %s\n doc %s", msg, c.Path, c.Doc))
		}
	})
	// (c) reuse histories and sharing between goroutines
	rt.Rapid(t, "reuse", rt.PerShard(rt.N(30000, 600000)), func(t *rapid.T) {
		base := jsongen.Gen(t, docCfg()).Render()
		root, err := ref.Parse(base)
		if err != nil {
			t.Fatalf("harness: %v", err)
		}
		c := &Case{Path: genPath(t, root)}
		shared, err := gojson.CreatePath(c.Path)
		if err != nil {
			t.Skip("path rejected")
		}
		n := rapid.IntRange(2, 8).Draw(t, "n")
		for i := 0; i < n; i++ {
			var d []byte
			switch rapid.IntRange(0, 3).Draw(t, "kind") {
			case 0:
				d = base
			case 1:
				d = jsongen.Gen(t, docCfg()).Render() // probably mismatching the path somewhere
			case 2:
				d = base[:rapid.IntRange(0, len(base)).Draw(t, "cut")] // malformed
			default:
				d = []byte(rapid.SampledFrom([]string{"null", "1", `"s"`, "[]", "{}", "[[]]", `{"a":{}}`, "{", ""}).Draw(t, "small"))
			}
			c.Hist = append(c.Hist, string(d))
		}
		rt.Journal("reuse", func() string { x, _ := stdjson.Marshal(c); return string(x) })
		rt.Count("cases/reuse", 1)
		sawFailure := false
		for i, d := range c.Hist {
			fresh, _ := gojson.CreatePath(c.Path)
			wantParts, wantErr, _ := extract(fresh, []byte(d))
			gotParts, gotErr, pv := extract(shared, []byte(d))
			if pv != nil {
				t.Fatalf("%s", rt.Fail(prop, "reuse", c, "Extract on the reused Path panicked at step %d: %v", i, pv))
			}
			if (wantErr == nil) != (gotErr == nil) || !reflect.DeepEqual(wantParts, gotParts) {
				t.Fatalf("%s", rt.Fail(prop, "reuse", c, "step %d of a reuse history: the reused Path gives %q err=%v, a fresh Path gives %q err=%v\n path %s\n doc %s", i, gotParts, gotErr, wantParts, wantErr, c.Path, d))
			}
			if wantErr != nil {
				sawFailure = true
			} else if sawFailure {
				rt.NonTrivial(rt.Hash64("reuse", c.Path, fmt.Sprint(c.Hist)))
			}
		}
		// sharing: G goroutines use the same Path at once
		G := rapid.SampledFrom([]int{2, 4, 8}).Draw(t, "G")
		type res struct {
			parts []string
			err   error
		}
		want := make([]res, len(c.Hist))
		for i, d := range c.Hist {
			fresh, _ := gojson.CreatePath(c.Path)
			p, e, _ := extract(fresh, []byte(d))
			want[i] = res{p, e}
		}
		var wg sync.WaitGroup
		bad := make([]string, G)
		for g := 0; g < G; g++ {
			wg.Add(1)
			go func(g int) {
				defer wg.Done()
				for r := 0; r < 20; r++ {
					for i, d := range c.Hist {
						p, e, pv := extract(shared, []byte(d))
						if pv != nil || (e == nil) != (want[i].err == nil) || !reflect.DeepEqual(p, want[i].parts) {
							bad[g] = fmt.Sprintf("goroutine %d, doc %d: got %q err=%v panic=%v, want %q err=%v", g, i, p, e, pv, want[i].parts, want[i].err)
							return
						}
					}
				}
			}(g)
		}
		wg.Wait()
		for _, b := range bad {
			if b != "" {
				t.Fatalf("%s", rt.Fail(prop, "reuse", c, "a Path shared by %d goroutines answered differently from a fresh Path: %s\n path %s", G, b, c.Path))
			}
		}
		rt.Sample("reuse", map[string]any{"path": c.Path, "docs": len(c.Hist), "goroutines": G})
	})
	// (a) every short path string: accepted or rejected, never a panic; clearly malformed text is rejected;
	// the documented grammar is accepted; accepted+documented paths agree with the reference on three documents
	t.Run("enum", func(t *testing.T) {
		alpha := []byte("$.[]*'\"01ab")
		L := 6
		if rt.Thorough() {
			L = 7
		}
		docs := []string{`{"a":{"b":[1,{"a":2,"b":null}],"1":"x"},"b":[[3],[]],"0":0,"ab":{"a":[0,1]}}`, `[{"a":1},[0,1,[2]],"s",null,{"b":{"a":[]}}]`, `{"a":[{"b":1},{"b":2},{"a":3}],"b":"a"}`, `[0,1,2,3,4,5,6,7,8,9,10,11,12]`, `{"a":[0,1,2,3,4,5,6,7,8,9,10,11,12],"b":[[0,1,2,3,4,5,6,7,8,9,10,11]]}`}
		var idx, mine int64
		buf := make([]byte, 0, L)
		fails := 0
		var rec func(d int)
		rec = func(d int) {
			if fails > 3 {
				return
			}
			if idx%int64(rt.E.NShards) == int64(rt.E.Shard) {
				mine++
				ps := string(buf)
				rt.Journal("enum", func() string { return fmt.Sprintf(`{"path":%q}`, ps) })
				var p *gojson.Path
				var err error
				if pv := rt.Guard(func() { p, err = gojson.CreatePath(ps) }); pv != nil {
					t.Error(rt.Fail(prop, "enum", Case{Path: ps}, "CreatePath(%q) panicked: %v", ps, pv))
					fails++
				} else if err == nil && definitelyMalformed(ps) {
					t.Error(rt.Fail(prop, "enum", Case{Path: ps}, "CreatePath accepts the malformed path %q", ps))
					fails++
				} else if _, ok := ref.ParsePath(ps); ok {
					if err != nil {
						t.Error(rt.Fail(prop, "enum", Case{Path: ps}, "CreatePath rejects %q, a path of the documented grammar: %v", ps, err))
						fails++
					} else {
						_ = p
						for _, d := range docs {
							c := &Case{Path: ps, Doc: d}
							if msg := checkSemantics(c); msg != "" {
								t.Error(rt.Fail(prop, "enum", c, "%s\n path %s\n doc %s", msg, ps, d))
								fails++
								break
							}
						}
					}
				}
			}
			idx++
			if d == L {
				return
			}
			for _, a := range alpha {
				buf = append(buf, a)
				rec(d + 1)
				buf = buf[:len(buf)-1]
			}
		}
		rec(0)
		// outside the documented alphabet (signed subscripts): nothing is asserted about acceptance, but
		// neither CreatePath nor any evaluation of an accepted path may panic
		if rt.E.Shard == 0 {
			signed := []byte("$[]-01.a*")
			var walk func(b []byte, d int)
			walk = func(b []byte, d int) {
				if fails > 3 {
					return
				}
				ps := string(b)
				if strings.Contains(ps, "-") && strings.HasPrefix(ps, "$") {
					rt.Journal("enum", func() string { return fmt.Sprintf(`{"path":%q}`, ps) })
					var p *gojson.Path
					var err error
					if pv := rt.Guard(func() { p, err = gojson.CreatePath(ps) }); pv != nil {
						t.Error(rt.Fail(prop, "enum", Case{Path: ps}, "CreatePath(%q) panicked: %v", ps, pv))
						fails++
					} else if err == nil {
						for _, d := range docs {
							if pv := rt.Guard(func() {
								p.Extract([]byte(d))
								var v, src, dst interface{}
								p.Unmarshal([]byte(d), &v)
								stdjson.Unmarshal([]byte(d), &src)
								p.Get(src, &dst)
							}); pv != nil {
								t.Error(rt.Fail(prop, "enum", Case{Path: ps, Doc: d}, "evaluating the accepted path %q panicked: %v", ps, pv))
								fails++
								break
							}
						}
						rt.Label("accepted path outside the documented alphabet (no-panic only)")
					}
					mine++
				}
				if d == 6 {
					return
				}
				for _, a := range signed {
					walk(append(b, a), d+1)
				}
			}
			walk([]byte("$"), 1)
		}
		rt.Count("cases/enum", mine)
		rt.NonTrivialDistinct(mine)
		rt.Exhaustive(fmt.Sprintf("all path strings of length <= %d over %q", L, alpha))
		rt.Sample("enum", map[string]any{"paths": mine})
	})
}

// definitelyMalformed: malformed in ways the doc comment makes unambiguous.
func definitelyMalformed(s string) bool {
	if s == "" || s[0] != '$' || strings.HasSuffix(s, ".") || strings.HasSuffix(s, "[") {
		return true
	}
	if !strings.Contains(s, "'") && strings.Count(s, `"`)%2 == 1 {
		return true // a double-quoted name (after a dot) is left open
	}
	if !strings.ContainsAny(s, "'\"") {
		if strings.Count(s, "[") != strings.Count(s, "]") {
			return true
		}
		// an unquoted subscript is * or a decimal number
		rest := s
		for {
			i := strings.IndexByte(rest, '[')
			if i < 0 {
				break
			}
			j := strings.IndexByte(rest[i:], ']')
			if j < 0 {
				break
			}
			sub := rest[i+1 : i+j]
			if sub != "*" && (sub == "" || strings.Trim(sub, "0123456789") != "") {
				return true
			}
			rest = rest[i+j+1:]
		}
	}
	return false
}

func TestReplay(t *testing.T) {
	f, err := rt.LoadReplay()
	if err != nil {
		t.Fatal(err)
	}
	var c Case
	if err := stdjson.Unmarshal(f.Case, &c); err != nil {
		t.Fatal(err)
	}
	if len(c.Hist) > 0 {
		shared, err := gojson.CreatePath(c.Path)
		if err != nil {
			t.Fatal(err)
		}
		for i, d := range c.Hist {
			fresh, _ := gojson.CreatePath(c.Path)
			w, we, _ := extract(fresh, []byte(d))
			g, ge, pv := extract(shared, []byte(d))
			if pv != nil || (we == nil) != (ge == nil) || !reflect.DeepEqual(w, g) {
				t.Fatalf("step %d: reused %q %v, fresh %q %v panic=%v", i, g, ge, w, we, pv)
			}
		}
		return
	}
	if _, err := gojson.CreatePath(c.Path); err == nil && definitelyMalformed(c.Path) {
		t.Fatalf("CreatePath accepts the malformed path %q", c.Path)
	}
	if msg := checkSemantics(&c); msg != "" {
		t.Fatal(msg)
	}
}

func TestWitness(t *testing.T) {
	known.Witnesses[kfRecursive] = func() (bool, string) {
		c := &Case{Path: "$..a", Doc: `{"a":{"b":[1,{"a":2,"b":null}],"c":"x"},"d":{"a":{"a":5}}}`}
		rt.SetActive(nil)
		msg := checkSemantics(c)
		return msg != "", msg
	}
	known.RunWitness()
}
