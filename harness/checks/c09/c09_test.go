package c09

import (
	"bytes"
	stdjson "encoding/json"
	"encoding/hex"
	"errors"
	"fmt"
	"io"
	"os"
	"reflect"
	"strings"
	"testing"
	"unicode/utf8"

	gojson "github.com/goccy/go-json"
	"pgregory.net/rapid"

	_ "verif/harness/dec"
	"verif/harness/enc"
	"verif/harness/gen"
	"verif/harness/jsongen"
	"verif/harness/known"
	"verif/harness/ref"
	"verif/harness/rt"
)

const prop = "C09"

const (
	kfOffset    = "FX-C09-inputoffset-after-unescape"
	kfReaderErr = "KF-C09-reader-error-swallowed"
	kfBadUTF8   = "KF-C09-invalid-utf8-kept-by-buffer-decoder"
	kfNul       = "KF-C05-stream-nul-ends-input"
)

func TestMain(m *testing.M) {
	code := m.Run()
	rt.Flush()
	os.Exit(code)
}

type Case struct {
	Spec   *gen.TypeSpec `json:"spec,omitempty"` // nil = interface{}
	Type   string        `json:"type"`
	Hex    string        `json:"hex"`
	Text   string        `json:"text"`
	Docs   []int         `json:"docs,omitempty"` // end offsets of the concatenated valid documents (empty = single possibly-invalid text)
	Pieces []int         `json:"pieces,omitempty"`
	FailAt int           `json:"fail_at,omitempty"`
	With   bool          `json:"with_data,omitempty"`
	Active []string      `json:"active"`
}

func typeCfg() gen.TypeCfg {
	c := gen.DefaultTypeCfg()
	c.Leaves = append(append(append([]string{}, gen.PlainLeaves...), gen.UnmarshalLeaves...), "EmbA", "EmbC", "KeyMT")
	c.KeyKinds = append(append([]string{}, gen.DefaultKeyKinds...), "leaf:KeyMT")
	c.Wide = true
	c.MaxDepth = 3
	return c
}

func destType(c *Case) reflect.Type {
	if c.Spec == nil {
		return reflect.TypeOf((*interface{})(nil)).Elem()
	}
	return enc.SafeType(c.Spec)
}

// outcome of draining a decoder: the decoded values (rendered), then how it ended
type outcome struct {
	vals []string
	end  string // "EOF" | "ERR"
	err  error
	pv   any
}

func (o outcome) String() string {
	s := fmt.Sprintf("%d values %v then %s", len(o.vals), clipList(o.vals), o.end)
	if o.err != nil {
		s += " (" + o.err.Error() + ")"
	}
	if o.pv != nil {
		s += fmt.Sprintf(" PANIC %v", o.pv)
	}
	return s
}

func clipList(l []string) []string {
	out := make([]string, len(l))
	for i, s := range l {
		if len(s) > 120 {
			s = s[:120] + "…"
		}
		out[i] = s
	}
	return out
}

func render(v interface{}) string { return gen.Render(reflect.ValueOf(v)) }

func drain(r io.Reader, typ reflect.Type, limit int) (o outcome) {
	o.pv = rt.Guard(func() {
		d := gojson.NewDecoder(r)
		for len(o.vals) < limit {
			dst := reflect.New(typ)
			err := d.Decode(dst.Interface())
			if err == nil {
				o.vals = append(o.vals, render(dst.Elem().Interface()))
				continue
			}
			if err == io.EOF {
				o.end = "EOF"
			} else {
				o.end, o.err = "ERR", err
			}
			return
		}
		o.end = "LIMIT"
	})
	if o.pv != nil {
		o.end = "PANIC"
	}
	return
}

func same(a, b outcome) bool {
	return a.end == b.end && reflect.DeepEqual(a.vals, b.vals)
}

// chunkings of n bytes to try for a case
func chunkings(t *rapid.T, n int) [][]int {
	var out [][]int
	if n <= 48 {
		for i := 1; i < n; i++ {
			out = append(out, []int{i, n - i})
		}
		if n <= 24 {
			for i := 1; i < n; i++ {
				for j := i + 1; j < n; j++ {
					out = append(out, []int{i, j - i, n - j})
				}
			}
		}
	}
	for _, k := range []int{1, 2, 3, 5, 7, 16, 17} {
		var p []int
		for r := n; r > 0; r -= k {
			if r < k {
				p = append(p, r)
			} else {
				p = append(p, k)
			}
		}
		out = append(out, p)
	}
	for i := 0; i < 3; i++ {
		out = append(out, jsongen.Chunks(t, n))
	}
	return out
}

func TestCheck(t *testing.T) {
	n := rt.PerShard(rt.N(80000, 3000000))
	rt.Rapid(t, "chunks", n, func(t *rapid.T) {
		c := &Case{Active: rt.ActiveList(), Type: "interface{}"}
		if rapid.IntRange(0, 2).Draw(t, "typed") > 0 {
			c.Spec = gen.GenType(t, typeCfg())
			known.RepairDecSpec(c.Spec)
			if enc.SafeType(c.Spec) == nil {
				t.Skip("reflect refuses the shape")
			}
			c.Type = c.Spec.String()
		}
		gendoc := func() []byte {
			if c.Spec != nil && rapid.IntRange(0, 3).Draw(t, "directed") > 0 {
				tc := jsongen.DefaultTyped
				tc.CaseKeys = rapid.IntRange(0, 3).Draw(t, "casekeys") == 0
				return jsongen.Typed(t, c.Spec, tc)
			}
			cfg := jsongen.DefaultCfg
			cfg.MaxDepth, cfg.MaxElems = 3, 3
			return jsongen.Gen(t, cfg).Render()
		}
		var text []byte
		mode := rapid.IntRange(0, 9).Draw(t, "mode")
		switch {
		case mode <= 5: // 1..4 valid documents, separated so that the stream is unambiguous
			k := 1
			if mode >= 4 {
				k = rapid.IntRange(2, 4).Draw(t, "k")
			}
			for i := 0; i < k; i++ {
				d := gendoc()
				text = append(text, d...)
				sep := rapid.SampledFrom([]string{"\n", " ", "\n\n", "\t", "\r\n"}).Draw(t, "sep")
				if i < k-1 || rapid.Bool().Draw(t, "trailsep") {
					text = append(text, sep...)
				}
				c.Docs = append(c.Docs, len(text))
			}
		case mode == 6: // long document: crosses the 512/1024-byte buffer boundaries
			pad := rapid.SampledFrom([]int{480, 500, 505, 509, 510, 511, 512, 513, 1000, 1020, 1023, 1024, 1025, 2040}).Draw(t, "pad")
			d := gendoc()
			if rapid.Bool().Draw(t, "padstring") {
				text = append(text, `["`+strings.Repeat("p", pad)+`",`...)
				text = append(append(text, d...), ']')
			} else {
				text = append(append(text, strings.Repeat(" ", pad)...), d...)
			}
			c.Docs = []int{len(text)}
		default: // single-byte mutation of a valid document
			d := gendoc()
			if len(d) > 0 {
				i := rapid.IntRange(0, len(d)-1).Draw(t, "pos")
				switch rapid.IntRange(0, 2).Draw(t, "mut") {
				case 0:
					d = append(append([]byte{}, d[:i]...), d[i+1:]...)
				case 1:
					d = append(append(append([]byte{}, d[:i]...), rapid.SampledFrom(jsongen.MutAlphabet).Draw(t, "byte")), d[i:]...)
				default:
					d = append([]byte{}, d[:i]...)
				}
			}
			text = d
		}
		c.Hex, c.Text = hex.EncodeToString(text), clip(string(text))
		if msg := runChunks(t, c, text); msg != "" {
			t.Fatalf("%s", msg)
		}
	})
	rt.Rapid(t, "tokens", rt.PerShard(rt.N(40000, 1000000)), func(t *rapid.T) {
		cfg := jsongen.DefaultCfg
		cfg.MaxDepth, cfg.MaxElems = 3, 4
		text := jsongen.Gen(t, cfg).Render()
		if rapid.IntRange(0, 4).Draw(t, "second") == 0 {
			text = append(append(text, '\n'), jsongen.Gen(t, cfg).Render()...)
		}
		c := &Case{Active: rt.ActiveList(), Type: "tokens", Hex: hex.EncodeToString(text), Text: clip(string(text)), Pieces: jsongen.Chunks(t, len(text))}
		if msg := runTokens(c, text); msg != "" {
			t.Fatalf("%s", msg)
		}
	})
	rt.Rapid(t, "faults", rt.PerShard(rt.N(40000, 1000000)), func(t *rapid.T) {
		cfg := jsongen.DefaultCfg
		cfg.MaxDepth, cfg.MaxElems = 2, 3
		text := jsongen.Gen(t, cfg).Render()
		if len(text) == 0 {
			t.Skip("empty")
		}
		c := &Case{Active: rt.ActiveList(), Type: "interface{}", Hex: hex.EncodeToString(text), Text: clip(string(text))}
		c.FailAt = rapid.IntRange(0, len(text)).Draw(t, "failat")
		c.With = rapid.Bool().Draw(t, "withdata")
		c.Pieces = jsongen.Chunks(t, len(text))
		if msg := runFault(c, text); msg != "" {
			t.Fatalf("%s", msg)
		}
	})
}

// ---- (1) chunking invariance and (2) agreement with Unmarshal

func runChunks(t *rapid.T, c *Case, text []byte) string {
	const sub = "chunks"
	typ := destType(c)
	if typ == nil {
		return ""
	}
	rt.Journal(sub, func() string { x, _ := stdjson.Marshal(c); return string(x) })
	limit := len(c.Docs) + 6
	whole := drain(bytes.NewReader(text), typ, limit)
	rt.Count("cases/"+sub, 1)
	if whole.pv != nil {
		return rt.Fail(prop, sub, c, "Decoder panics on the whole text: %v\n type %s\n text %q", whole.pv, c.Type, c.Text)
	}
	// (2) valid documents: each must decode to what Unmarshal gives for it alone, then EOF
	if len(c.Docs) > 0 {
		var want outcome
		start := 0
		for _, end := range c.Docs {
			dst := reflect.New(typ)
			var err error
			pv := rt.Guard(func() { err = gojson.Unmarshal(text[start:end], dst.Interface()) })
			if pv != nil {
				return rt.Fail(prop, sub, c, "Unmarshal panics: %v", pv)
			}
			if err != nil {
				want.end = "ERR"
				break
			}
			want.vals = append(want.vals, render(dst.Elem().Interface()))
			start = end
		}
		if want.end == "" {
			want.end = "EOF"
		}
		if !same(whole, want) && !(want.end == "ERR" && whole.end == "ERR" && len(whole.vals) == len(want.vals)) {
			if rt.Active(kfBadUTF8) && !utf8.Valid(text) {
				rt.KnownHit(kfBadUTF8)
				return ""
			}
			return rt.Fail(prop, sub, c, "Decoder over the whole text differs from Unmarshal document by document\n type %s\n text %q\n Decoder:   %s\n Unmarshal: %s", c.Type, c.Text, whole, want)
		}
		rt.Label("valid-docs")
	} else {
		rt.Label("mutated-doc")
		// a single (probably invalid) text: if Unmarshal accepts it the Decoder must give the same first value
		dst := reflect.New(typ)
		var err error
		rt.Guard(func() { err = gojson.Unmarshal(text, dst.Interface()) })
		// (only for valid texts: what the buffer decoder wrongly accepts is C05's subject)
		if err == nil && ref.Valid(text) && (len(whole.vals) == 0 || whole.vals[0] != render(dst.Elem().Interface())) {
			if rt.Active(kfBadUTF8) && !utf8.Valid(text) {
				rt.KnownHit(kfBadUTF8)
				return ""
			}
			return rt.Fail(prop, sub, c, "Unmarshal accepts the text but Decoder does not yield the same value\n type %s\n text %q\n Decoder: %s\n Unmarshal: %s", c.Type, c.Text, whole, render(dst.Elem().Interface()))
		}
	}
	// (1) every chunking gives the same outcome as the whole-text reader
	cuts := 0
	inside := false
	toks := known.TokensOfStream(text)
	for _, pieces := range chunkings(t, len(text)) {
		cr := jsongen.NewChunkReader(text, append([]int{}, pieces...))
		got := drain(cr, typ, limit)
		cuts++
		if !inside {
			for _, b := range cr.Bounds {
				for _, tk := range toks {
					if b > tk.Start && b < tk.End {
						inside = true
					}
				}
			}
		}
		if !same(got, whole) {
			c.Pieces = pieces
			if rt.Active(kfNul) && bytes.IndexByte(text, 0) >= 0 {
				rt.KnownHit(kfNul)
				return ""
			}
			return rt.Fail(prop, sub, c, "the outcome depends on how the reader delivers the bytes\n type %s\n text %q\n pieces %v\n chunked: %s\n whole:   %s", c.Type, c.Text, pieces, got, whole)
		}
	}
	rt.Count("chunkings", int64(cuts))
	if inside || len(text) > 512 {
		rt.NonTrivial(rt.Hash64(c.Type, string(text)))
		rt.Label("cut-inside-token")
	}
	if len(text) > 512 {
		rt.Label("longer-than-512")
	}
	if rt.WantSample(sub) {
		rt.Sample(sub, map[string]any{"type": c.Type, "text": c.Text, "chunkings": cuts, "outcome": whole.String()})
	} else {
		rt.Sample(sub, nil)
	}
	return ""
}

// ---- (3) Token / More / InputOffset against encoding/json on valid documents

type tokStep struct {
	tok  string
	more bool
	off  int64
	err  string
}

func runTokens(c *Case, text []byte) string {
	const sub = "tokens"
	rt.Journal(sub, func() string { x, _ := stdjson.Marshal(c); return string(x) })
	rt.Count("cases/"+sub, 1)
	sd := stdjson.NewDecoder(bytes.NewReader(text))
	var gd *gojson.Decoder
	gd = gojson.NewDecoder(jsongen.NewChunkReader(text, append([]int{}, c.Pieces...)))
	hasEscape := bytes.IndexByte(text, '\\') >= 0
	for i := 0; i < len(text)+4; i++ {
		st, serr := sd.Token()
		var gt gojson.Token
		var gerr error
		if pv := rt.Guard(func() { gt, gerr = gd.Token() }); pv != nil {
			return rt.Fail(prop, sub, c, "Token panics: %v\n text %q", pv, c.Text)
		}
		if (serr == nil) != (gerr == nil) {
			return rt.Fail(prop, sub, c, "Token #%d: encoding/json err=%v, go-json err=%v\n text %q pieces %v", i, serr, gerr, c.Text, c.Pieces)
		}
		if serr != nil {
			break
		}
		if !reflect.DeepEqual(st, gt) {
			return rt.Fail(prop, sub, c, "Token #%d: encoding/json %#v, go-json %#v\n text %q pieces %v", i, st, gt, c.Text, c.Pieces)
		}
		sm := sd.More()
		var gm bool
		if pv := rt.Guard(func() { gm = gd.More() }); pv != nil {
			return rt.Fail(prop, sub, c, "More panics: %v", pv)
		}
		if sm != gm {
			return rt.Fail(prop, sub, c, "More after token #%d (%#v): encoding/json %v, go-json %v\n text %q pieces %v", i, st, sm, gm, c.Text, c.Pieces)
		}
		so, gofs := sd.InputOffset(), gd.InputOffset()
		// encoding/json reports the offset just after the token; go-json's More() may have skipped
		// whitespace: compare before whitespace/separators
		if trimOffset(text, so) != trimOffset(text, gofs) {
			if hasEscape && rt.Active(kfOffset) {
				rt.KnownHit(kfOffset)
				return ""
			}
			return rt.Fail(prop, sub, c, "InputOffset after token #%d (%#v): encoding/json %d, go-json %d\n text %q pieces %v", i, st, so, gofs, c.Text, c.Pieces)
		}
	}
	toks, _ := ref.Tokens(bytes.TrimSpace(firstDoc(text)))
	if len(toks) >= 3 {
		rt.NonTrivial(rt.Hash64("tokens", string(text), fmt.Sprint(c.Pieces)))
	}
	rt.Sample(sub, map[string]any{"text": c.Text, "pieces": len(c.Pieces)})
	return ""
}

func firstDoc(text []byte) []byte {
	_, end, err := ref.Scan(text, ref.Relax{}, false)
	if err != nil {
		return text
	}
	return text[:end]
}

// trimOffset moves an offset forward over whitespace, ',' and ':' so that offsets taken before and
// after skipping insignificant bytes compare equal.
func trimOffset(text []byte, off int64) int64 {
	for off < int64(len(text)) {
		switch text[off] {
		case ' ', '\t', '\r', '\n', ',', ':':
			off++
			continue
		}
		break
	}
	return off
}

// ---- (4) reader faults

var errBoom = errors.New("boom: injected reader failure")

func runFault(c *Case, text []byte) string {
	const sub = "faults"
	rt.Journal(sub, func() string { x, _ := stdjson.Marshal(c); return string(x) })
	rt.Count("cases/"+sub, 1)
	cr := jsongen.NewChunkReader(text, append([]int{}, c.Pieces...))
	cr.FailAt, cr.Err, cr.WithData = c.FailAt, errBoom, c.With
	var v interface{}
	var err error
	if pv := rt.Guard(func() { err = gojson.NewDecoder(cr).Decode(&v) }); pv != nil {
		return rt.Fail(prop, sub, c, "Decode panics when the reader fails at byte %d: %v\n text %q", c.FailAt, pv, c.Text)
	}
	delivered := text[:c.FailAt]
	// is the first value's end determinable inside the delivered bytes?
	complete := false
	if _, end, e := ref.Scan(delivered, ref.Relax{}, false); e == nil {
		first := bytes.TrimLeft(delivered, " \t\r\n")
		selfDelimiting := len(first) > 0 && (first[0] == '{' || first[0] == '[' || first[0] == '"')
		complete = selfDelimiting || end < len(delivered) // literals/numbers need one more delivered byte
	}
	rt.NonTrivial(rt.Hash64("fault", string(text), fmt.Sprint(c.FailAt, c.With, c.Pieces)))
	if complete {
		rt.Label("fault-after-complete-value")
		return "" // success and failure are both acceptable once the value is complete
	}
	rt.Label("fault-inside-value")
	if err == nil {
		if rt.Active(kfReaderErr) {
			rt.KnownHit(kfReaderErr)
			return ""
		}
		return rt.Fail(prop, sub, c, "the reader failed at byte %d, before the value was complete, but Decode succeeded with %#v\n text %q", c.FailAt, v, c.Text)
	}
	if !errors.Is(err, errBoom) && !strings.Contains(err.Error(), "boom") {
		if rt.Active(kfReaderErr) {
			rt.KnownHit(kfReaderErr)
			return ""
		}
		return rt.Fail(prop, sub, c, "the reader failed at byte %d with %q but Decode reported %q\n text %q", c.FailAt, errBoom, err, c.Text)
	}
	return ""
}

func clip(s string) string {
	if len(s) > 300 {
		return s[:300] + "…"
	}
	return s
}

func TestReplay(t *testing.T) {
	f, err := rt.LoadReplay()
	if err != nil {
		t.Fatal(err)
	}
	var c Case
	if err := stdjson.Unmarshal(f.Case, &c); err != nil {
		t.Fatal(err)
	}
	text, err := hex.DecodeString(c.Hex)
	if err != nil {
		t.Fatal(err)
	}
	switch {
	case strings.HasPrefix(f.Sub, "tokens"):
		if msg := runTokens(&c, text); msg != "" {
			t.Fatal(msg)
		}
	case strings.HasPrefix(f.Sub, "faults"):
		if msg := runFault(&c, text); msg != "" {
			t.Fatal(msg)
		}
	default:
		typ := destType(&c)
		limit := len(c.Docs) + 6
		whole := drain(bytes.NewReader(text), typ, limit)
		got := drain(jsongen.NewChunkReader(text, append([]int{}, c.Pieces...)), typ, limit)
		if !same(got, whole) {
			t.Fatalf("chunked %s\nwhole %s", got, whole)
		}
	}
}

func TestWitness(t *testing.T) {
	known.Witnesses[kfOffset] = func() (bool, string) {
		text := []byte("[\"a\\u00e9\\n\",1]")
		d := gojson.NewDecoder(bytes.NewReader(text))
		s := stdjson.NewDecoder(bytes.NewReader(text))
		d.Token()
		d.Token()
		s.Token()
		s.Token()
		return d.InputOffset() != s.InputOffset(), fmt.Sprintf("go-json %d encoding/json %d", d.InputOffset(), s.InputOffset())
	}
	known.Witnesses[kfBadUTF8] = func() (bool, string) {
		text := []byte("\"aaa\xa9\"")
		var a, b string
		e1 := gojson.Unmarshal(text, &a)
		e2 := gojson.NewDecoder(bytes.NewReader(text)).Decode(&b)
		return e1 != nil || e2 != nil || a != b, fmt.Sprintf("Unmarshal %q err=%v, Decoder %q err=%v", a, e1, b, e2)
	}
	known.Witnesses[kfReaderErr] = func() (bool, string) {
		cr := jsongen.NewChunkReader([]byte("12345"), []int{3, 2})
		cr.FailAt, cr.Err = 3, errBoom
		var v interface{}
		err := gojson.NewDecoder(cr).Decode(&v)
		return err == nil || !errors.Is(err, errBoom), fmt.Sprintf("v=%v err=%v", v, err)
	}
	known.RunWitness()
}
