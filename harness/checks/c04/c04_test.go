package c04

import (
	"bytes"
	stdjson "encoding/json"
	"fmt"
	"os"
	"reflect"
	"testing"

	gojson "github.com/goccy/go-json"
	"pgregory.net/rapid"

	_ "verif/harness/dec"
	"verif/harness/enc"
	"verif/harness/gen"
	"verif/harness/jsongen"
	"verif/harness/known"
	"verif/harness/rt"
)

const prop = "C04"

func TestMain(m *testing.M) {
	code := m.Run()
	rt.Flush()
	os.Exit(code)
}

type Case struct {
	enc.Case
	Path   string `json:"path"` // marshal | indent | stream
	K      int    `json:"k"`    // stream: number of values
	Pieces []int  `json:"pieces"`
}

func typeCfg() gen.TypeCfg {
	c := gen.DefaultTypeCfg()
	c.Prims = []string{"bool", "int", "int8", "int16", "int32", "int64", "uint", "uint8", "uint16", "uint32", "uint64", "uintptr",
		"float32", "float64", "string", "string", "bytes", "number", "iface", "raw"}
	c.Leaves = append(append([]string{}, gen.PlainLeaves...), "RoundMJ", "EmbA", "EmbB", "EmbC")
	c.KeyKinds = gen.DefaultKeyKinds
	c.Unexported = false
	c.NoDashTag = true
	c.Wide = true
	c.BigArrays = true
	return c
}

func valCfg() gen.ValCfg {
	return known.EncValCfg(gen.ValCfg{ValidUTF8: true, NaturalIface: true, RoundTrip: true})
}

func TestCheck(t *testing.T) {
	n := rt.PerShard(rt.N(200000, 3000000))
	rt.Rapid(t, "roundtrip", n, func(t *rapid.T) {
		spec := gen.GenType(t, typeCfg())
		known.RepairEncSpec(spec)
		known.RepairDecSpec(spec)
		typ := enc.SafeType(spec)
		if typ == nil {
			t.Skip("reflect refuses the shape")
		}
		c := &Case{}
		c.Path = rapid.SampledFrom([]string{"marshal", "marshal", "indent", "stream", "stream"}).Draw(t, "path")
		c.K = 1
		if c.Path == "stream" {
			c.K = rapid.IntRange(1, 4).Draw(t, "k")
		}
		var recs gen.Recipe
		vals := make([]reflect.Value, c.K)
		for i := range vals {
			v, rec := gen.Draw(t, typ, valCfg())
			vals[i] = v
			recs = append(append(recs, uint64(len(rec))), rec...)
		}
		c.Spec, c.Type, c.Recipe, c.Active = spec, spec.String(), recs, rt.ActiveList()
		if c.Path == "indent" {
			c.Prefix = rapid.SampledFrom([]string{"", " ", "\t"}).Draw(t, "prefix")
			c.Indent = rapid.SampledFrom([]string{"  ", "\t", ""}).Draw(t, "indent")
		}
		if c.Path == "stream" {
			c.Pieces = jsongen.Chunks(t, 4096)
		}
		if msg := runCase(c, typ, vals); msg != "" {
			t.Fatalf("%s", msg)
		}
	})
}

func splitRecipes(r gen.Recipe) []gen.Recipe {
	var out []gen.Recipe
	for len(r) > 0 {
		n := int(r[0])
		if n > len(r)-1 {
			n = len(r) - 1
		}
		out = append(out, r[1:1+n])
		r = r[1+n:]
	}
	return out
}

// stdRoundTrips: the value is inside "JSON-representable data" iff encoding/json round-trips it.
func stdRoundTrips(typ reflect.Type, v reflect.Value, c *Case) bool {
	var b []byte
	var err error
	if c.Path == "indent" {
		b, err = stdjson.MarshalIndent(v.Interface(), c.Prefix, c.Indent)
	} else {
		b, err = stdjson.Marshal(v.Interface())
	}
	if err != nil {
		return false
	}
	d := reflect.New(typ)
	if err := stdjson.Unmarshal(b, d.Interface()); err != nil {
		return false
	}
	return reflect.DeepEqual(v.Interface(), d.Elem().Interface())
}

func runCase(c *Case, typ reflect.Type, vals []reflect.Value) string {
	const sub = "roundtrip"
	for _, v := range vals {
		if !stdRoundTrips(typ, v, c) {
			rt.Count("discarded-not-roundtrippable-by-encoding/json", 1)
			rt.Count("cases-generated", 1)
			return ""
		}
	}
	rt.Count("cases-generated", 1)
	rt.Journal(sub, func() string { b, _ := stdjson.Marshal(c); return string(b) })
	rt.Count("cases/"+sub, 1)
	rt.Label("path=" + c.Path)
	var text []byte
	var cr *jsongen.ChunkReader
	fail := ""
	pv := rt.Guard(func() {
		dsts := make([]reflect.Value, len(vals))
		switch c.Path {
		case "marshal", "indent":
			var err error
			if c.Path == "marshal" {
				text, err = gojson.Marshal(vals[0].Interface())
			} else {
				text, err = gojson.MarshalIndent(vals[0].Interface(), c.Prefix, c.Indent)
			}
			if err != nil {
				fail = fmt.Sprintf("Marshal failed: %v", err)
				return
			}
			dsts[0] = reflect.New(typ)
			if err := gojson.Unmarshal(text, dsts[0].Interface()); err != nil {
				fail = fmt.Sprintf("Unmarshal(Marshal(v)) failed: %v", err)
				return
			}
		case "stream":
			var buf bytes.Buffer
			e := gojson.NewEncoder(&buf)
			for _, v := range vals {
				if err := e.Encode(v.Interface()); err != nil {
					fail = fmt.Sprintf("Encode failed: %v", err)
					return
				}
			}
			text = append([]byte{}, buf.Bytes()...)
			cr = jsongen.NewChunkReader(text, append([]int{}, c.Pieces...))
			d := gojson.NewDecoder(cr)
			for i := range vals {
				dsts[i] = reflect.New(typ)
				if err := d.Decode(dsts[i].Interface()); err != nil {
					fail = fmt.Sprintf("Decode of value %d failed: %v", i, err)
					return
				}
			}
		}
		for i, v := range vals {
			if !reflect.DeepEqual(v.Interface(), dsts[i].Elem().Interface()) {
				w, _ := stdjson.Marshal(v.Interface())
				g, _ := stdjson.Marshal(dsts[i].Elem().Interface())
				fail = fmt.Sprintf("value %d differs after the round trip:\n want %s\n got  %s\n (Go syntax) want %#v\n got %#v", i, clip(w), clip(g), v.Interface(), dsts[i].Elem().Interface())
				return
			}
		}
	})
	if pv != nil {
		fail = fmt.Sprintf("panic: %v", pv)
	}
	nz := 0
	for _, x := range c.Recipe {
		if x != 0 {
			nz++
		}
	}
	if nz >= 3 && len(text) > 4 {
		rt.NonTrivial(rt.Hash64(c.Type, string(text), c.Path))
	}
	if rt.WantSample(sub) {
		rt.Sample(sub, map[string]any{"type": c.Type, "path": c.Path, "text": clip(text)})
	} else {
		rt.Sample(sub, nil)
	}
	if fail == "" {
		return ""
	}
	if c.Path == "stream" && rt.Active(known.StreamEscapedKeySplit) && cr != nil && known.CutInsideEscapedKey(text, cr.Bounds) {
		rt.KnownHit(known.StreamEscapedKeySplit)
		return ""
	}
	c.Got = clip(text)
	return rt.Fail(prop, sub, c, "%s\n type: %s\n path=%s pieces=%v\n text: %s", fail, c.Type, c.Path, c.Pieces, clip(text))
}

func clip(b []byte) string {
	if len(b) > 600 {
		return string(b[:600]) + "…"
	}
	return string(b)
}

func TestReplay(t *testing.T) {
	f, err := rt.LoadReplay()
	if err != nil {
		t.Fatal(err)
	}
	var c Case
	if err := stdjson.Unmarshal(f.Case, &c); err != nil {
		t.Fatal(err)
	}
	rt.SetActive(c.Active)
	typ := enc.SafeType(c.Spec)
	if typ == nil {
		t.Fatal("cannot realise type")
	}
	var vals []reflect.Value
	for _, r := range splitRecipes(c.Recipe) {
		vals = append(vals, gen.Rebuild(typ, r, valCfg()))
	}
	if msg := runCase(&c, typ, vals); msg != "" {
		t.Fatal(msg)
	}
}

func TestWitness(t *testing.T) {
	enc.RunWitness(t)
}
