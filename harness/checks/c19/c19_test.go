package c19

import (
	"context"
	stdjson "encoding/json"
	"fmt"
	"os"
	"reflect"
	"strings"
	"testing"

	gojson "github.com/goccy/go-json"
	"pgregory.net/rapid"

	_ "verif/harness/dec"
	"verif/harness/enc"
	"verif/harness/gen"
	"verif/harness/known"
	"verif/harness/ref"
	"verif/harness/rt"
)

const prop = "C19"

const (
	kfContainers = "KF-C19-subquery-ignored-in-containers"
	kfInterface  = "KF-C19-interface-member-filtered-by-root-query"
)

func TestMain(m *testing.M) {
	code := m.Run()
	rt.Flush()
	os.Exit(code)
}

// a context-aware marshaler: renders its fields through MarshalContext so that a sub-query applies
type CtxMJ struct {
	P string
	Q bool
	R int
}

type ctxAlias CtxMJ

func (c CtxMJ) MarshalJSON(ctx context.Context) ([]byte, error) {
	return gojson.MarshalContext(ctx, ctxAlias(c))
}

// ---- type specs of this check

type FSpec struct {
	Name string `json:"name"` // JSON member name (set by tag)
	Kind string `json:"kind"` // int string ptrint struct ptr slice array map iface ptrmj ctxmj
	Sub  *SSpec `json:"sub,omitempty"`
}

type SSpec struct {
	Fields []FSpec `json:"fields"`
}

var ctxSpec = &SSpec{Fields: []FSpec{{Name: "P", Kind: "string"}, {Name: "Q", Kind: "bool"}, {Name: "R", Kind: "int"}}}

func genStruct(t *rapid.T, depth int) *SSpec {
	n := rapid.IntRange(1, 5).Draw(t, "nf")
	if depth > 1 && n < 2 {
		n = 2 // a by-value struct whose only field is pointer-shaped is C01's KF-ENC-pointer-shaped-aggregate: constructed around
	}
	s := &SSpec{}
	for i := 0; i < n; i++ {
		f := FSpec{Name: fmt.Sprintf("%c%d", 'a'+i, depth)}
		kinds := []string{"int", "string", "ptrint", "ptrmj", "ctxmj"}
		if depth < 3 {
			kinds = append(kinds, "struct", "struct", "ptr", "slice", "array", "map", "iface")
		}
		f.Kind = rapid.SampledFrom(kinds).Draw(t, "kind")
		switch f.Kind {
		case "struct", "ptr", "slice", "array", "map", "iface":
			f.Sub = genStruct(t, depth+1)
		case "ctxmj":
			f.Sub = ctxSpec
		}
		s.Fields = append(s.Fields, f)
	}
	return s
}

func (s *SSpec) typ() reflect.Type {
	var fs []reflect.StructField
	for i, f := range s.Fields {
		var t reflect.Type
		switch f.Kind {
		case "int":
			t = reflect.TypeOf(0)
		case "string":
			t = reflect.TypeOf("")
		case "bool":
			t = reflect.TypeOf(false)
		case "ptrint":
			t = reflect.TypeOf((*int)(nil))
		case "ptrmj":
			t = reflect.TypeOf(gen.PtrMJ{})
		case "ctxmj":
			t = reflect.TypeOf(CtxMJ{})
		case "struct":
			t = f.Sub.typ()
		case "ptr":
			t = reflect.PointerTo(f.Sub.typ())
		case "slice":
			t = reflect.SliceOf(f.Sub.typ())
		case "array":
			t = reflect.ArrayOf(2, f.Sub.typ())
		case "map":
			t = reflect.MapOf(reflect.TypeOf(""), f.Sub.typ())
		case "iface":
			t = reflect.TypeOf((*interface{})(nil)).Elem()
		}
		fs = append(fs, reflect.StructField{Name: fmt.Sprintf("F%d", i), Type: t, Tag: reflect.StructTag(fmt.Sprintf(`json:%q`, f.Name))})
	}
	return reflect.StructOf(fs)
}

// fill gives every leaf a distinct, deterministic value
func (s *SSpec) fill(v reflect.Value, k *int) {
	for i, f := range s.Fields {
		fv := v.Field(i)
		*k++
		switch f.Kind {
		case "int":
			fv.SetInt(int64(*k))
		case "string":
			fv.SetString(fmt.Sprintf("s%d<", *k))
		case "bool":
			fv.SetBool(*k%2 == 0)
		case "ptrint":
			x := *k
			fv.Set(reflect.ValueOf(&x))
		case "ptrmj":
			fv.Set(reflect.ValueOf(gen.PtrMJ{A: *k, S: "pm"}))
		case "ctxmj":
			fv.Set(reflect.ValueOf(CtxMJ{P: fmt.Sprintf("p%d", *k), Q: *k%2 == 1, R: *k}))
		case "struct":
			f.Sub.fill(fv, k)
		case "ptr":
			p := reflect.New(f.Sub.typ())
			f.Sub.fill(p.Elem(), k)
			fv.Set(p)
		case "slice":
			sl := reflect.MakeSlice(fv.Type(), 2, 2)
			f.Sub.fill(sl.Index(0), k)
			f.Sub.fill(sl.Index(1), k)
			fv.Set(sl)
		case "array":
			f.Sub.fill(fv.Index(0), k)
			f.Sub.fill(fv.Index(1), k)
		case "map":
			m := reflect.MakeMap(fv.Type())
			for _, key := range []string{"k1", "k2"} {
				e := reflect.New(f.Sub.typ()).Elem()
				f.Sub.fill(e, k)
				m.SetMapIndex(reflect.ValueOf(key), e)
			}
			fv.Set(m)
		case "iface":
			e := reflect.New(f.Sub.typ()).Elem()
			f.Sub.fill(e, k)
			fv.Set(e)
		}
	}
}

// ---- queries

type Q struct {
	Name   string `json:"name"`
	Fields []*Q   `json:"fields,omitempty"`
}

func genQuery(t *rapid.T, s *SSpec, root bool) []*Q {
	var out []*Q
	for _, f := range s.Fields {
		if rapid.IntRange(0, 2).Draw(t, "sel") == 0 {
			continue
		}
		q := &Q{Name: f.Name}
		if f.Sub != nil && rapid.Bool().Draw(t, "subq") {
			q.Fields = genQuery(t, f.Sub, false)
		}
		out = append(out, q)
		if rapid.IntRange(0, 11).Draw(t, "dup") == 0 {
			out = append(out, &Q{Name: f.Name})
		}
	}
	if rapid.IntRange(0, 5).Draw(t, "bogus") == 0 {
		out = append(out, &Q{Name: "zz"})
	}
	return out
}

func (q *Q) toString() gojson.FieldQueryString {
	if len(q.Fields) == 0 {
		return gojson.FieldQueryString(q.Name)
	}
	var fs []gojson.FieldQueryString
	for _, f := range q.Fields {
		fs = append(fs, f.toString())
	}
	return gojson.BuildSubFieldQuery(q.Name).Fields(fs...)
}

func build(qs []*Q) (*gojson.FieldQuery, error) {
	var fs []gojson.FieldQueryString
	for _, q := range qs {
		fs = append(fs, q.toString())
	}
	return gojson.BuildFieldQuery(fs...)
}

func qtext(qs []*Q) string {
	b, _ := stdjson.Marshal(qs)
	return string(b)
}

// ---- reference projection over (spec, AST of the unfiltered output, query)

func find(qs []*Q, name string) (*Q, bool) {
	var found *Q
	for _, q := range qs { // a later duplicate overrides an earlier one (the query is turned into a map)
		if q.Name == name {
			found = q
		}
	}
	return found, found != nil
}

func project(doc []byte, n *ref.Node, s *SSpec, qs []*Q, sb *strings.Builder) {
	// n is the object encoding a struct described by s
	sb.WriteByte('{')
	first := true
	for i, key := range n.Keys {
		q, ok := find(qs, key)
		if !ok {
			continue
		}
		if !first {
			sb.WriteByte(',')
		}
		first = false
		kb, _ := stdjson.Marshal(key)
		sb.WriteString(goKey(doc, n, i, kb))
		sb.WriteByte(':')
		var fs *FSpec
		for j := range s.Fields {
			if s.Fields[j].Name == key {
				fs = &s.Fields[j]
			}
		}
		val := n.Elems[i]
		if fs == nil || fs.Sub == nil || len(q.Fields) == 0 {
			sb.Write(doc[val.Start:val.End])
			continue
		}
		projectValue(doc, val, fs.Kind, fs.Sub, q.Fields, sb)
	}
	sb.WriteByte('}')
}

// goKey returns the key spelling go-json used (HTML escaping etc.): the bytes before the colon
func goKey(doc []byte, n *ref.Node, i int, fallback []byte) string {
	// the key token ends right before the ':' preceding the value; search backwards from the value start
	end := n.Elems[i].Start
	j := end - 1
	for j >= 0 && doc[j] != ':' {
		j--
	}
	k := j - 1
	for k >= 0 && doc[k] != '"' {
		k--
	}
	// k is the closing quote; find the opening quote (keys here never contain quotes)
	o := k - 1
	for o >= 0 && doc[o] != '"' {
		o--
	}
	if o < 0 {
		return string(fallback)
	}
	return string(doc[o : k+1])
}

func projectValue(doc []byte, val *ref.Node, kind string, sub *SSpec, qs []*Q, sb *strings.Builder) {
	switch kind {
	case "struct", "ptr", "iface", "ctxmj":
		if val.Kind != 'o' {
			sb.Write(doc[val.Start:val.End])
			return
		}
		project(doc, val, sub, qs, sb)
	case "slice", "array":
		if val.Kind != 'a' {
			sb.Write(doc[val.Start:val.End])
			return
		}
		sb.WriteByte('[')
		for i, e := range val.Elems {
			if i > 0 {
				sb.WriteByte(',')
			}
			projectValue(doc, e, "struct", sub, qs, sb)
		}
		sb.WriteByte(']')
	case "map":
		if val.Kind != 'o' {
			sb.Write(doc[val.Start:val.End])
			return
		}
		sb.WriteByte('{')
		for i, e := range val.Elems {
			if i > 0 {
				sb.WriteByte(',')
			}
			kb, _ := stdjson.Marshal(val.Keys[i])
			sb.Write(kb)
			sb.WriteByte(':')
			projectValue(doc, e, "struct", sub, qs, sb)
		}
		sb.WriteByte('}')
	}
}

// uses reports whether the query reaches a field of one of the kinds: with a sub-query on it
// (needSub) or at all.
func uses(s *SSpec, qs []*Q, needSub bool, kinds ...string) bool {
	for _, q := range qs {
		for _, f := range s.Fields {
			if f.Name != q.Name || f.Sub == nil {
				continue
			}
			for _, k := range kinds {
				if f.Kind == k && (!needSub || len(q.Fields) > 0) {
					return true
				}
			}
			if f.Kind != "ctxmj" && len(q.Fields) > 0 && uses(f.Sub, q.Fields, needSub, kinds...) {
				return true
			}
		}
	}
	return false
}

func containsIface(s *SSpec) bool {
	for _, f := range s.Fields {
		if f.Kind == "iface" || (f.Sub != nil && f.Kind != "ctxmj" && containsIface(f.Sub)) {
			return true
		}
	}
	return false
}

// reachesIface: some interface{}-typed field lies inside the selected part of the value.
func reachesIface(s *SSpec, qs []*Q) bool {
	for _, q := range qs {
		for _, f := range s.Fields {
			if f.Name != q.Name {
				continue
			}
			if f.Kind == "iface" {
				return true
			}
			if f.Sub == nil || f.Kind == "ctxmj" {
				continue
			}
			if len(q.Fields) == 0 {
				if containsIface(f.Sub) {
					return true
				}
			} else if reachesIface(f.Sub, q.Fields) {
				return true
			}
		}
	}
	return false
}

type Case struct {
	Spec    *SSpec   `json:"spec"`
	Queries [][]*Q   `json:"queries"` // nil entry = unfiltered Marshal
	Order   []int    `json:"order"`
	Active  []string `json:"active"`
}

func marshalWith(v interface{}, qs []*Q, viaString bool) ([]byte, error, any) {
	var out []byte
	var err error
	pv := rt.Guard(func() {
		if qs == nil {
			out, err = gojson.MarshalContext(context.Background(), v)
			return
		}
		var fq *gojson.FieldQuery
		fq, err = build(qs)
		if err != nil {
			return
		}
		if viaString {
			var str gojson.FieldQueryString
			str, err = fq.QueryString()
			if err != nil {
				return
			}
			fq2, e2 := str.Build()
			if e2 != nil {
				err = fmt.Errorf("Build(QueryString(q)) failed: %v", e2)
				return
			}
			if !equalQuery(fq, fq2) {
				err = fmt.Errorf("Build(QueryString(q)) is not structurally equal to q: %s", str)
				return
			}
			fq = fq2
		}
		out, err = gojson.MarshalContext(gojson.SetFieldQueryToContext(context.Background(), fq), v)
	})
	return out, err, pv
}

func equalQuery(a, b *gojson.FieldQuery) bool {
	if a.Name != b.Name || len(a.Fields) != len(b.Fields) {
		return false
	}
	for i := range a.Fields {
		if !equalQuery(a.Fields[i], b.Fields[i]) {
			return false
		}
	}
	return true
}

func runCase(c *Case) string {
	typ := c.Spec.typ()
	v := reflect.New(typ)
	k := 0
	c.Spec.fill(v.Elem(), &k)
	val := v.Interface() // encoded through a pointer (pointer-receiver marshalers are addressable)
	plain, err := gojson.Marshal(val)
	if err != nil {
		return fmt.Sprintf("Marshal failed: %v", err)
	}
	root, perr := ref.Parse(plain)
	if perr != nil || root.Kind != 'o' {
		return fmt.Sprintf("Marshal output does not parse as an object: %v", perr)
	}
	for step, qi := range c.Order {
		qs := c.Queries[qi]
		viaString := step%3 == 2
		got, gerr, pv := marshalWith(val, qs, viaString)
		if pv != nil {
			return fmt.Sprintf("step %d: MarshalContext panicked: %v (query %s)", step, pv, qtext(qs))
		}
		if gerr != nil {
			return fmt.Sprintf("step %d: MarshalContext failed: %v (query %s)", step, gerr, qtext(qs))
		}
		var want string
		if qs == nil {
			want = string(plain)
		} else {
			var sb strings.Builder
			project(plain, root, c.Spec, qs, &sb)
			want = sb.String()
		}
		if string(got) != want {
			if qs != nil && rt.Active(kfContainers) && uses(c.Spec, qs, true, "slice", "array", "map") {
				rt.KnownHit(kfContainers)
				continue
			}
			if qs != nil && rt.Active(kfInterface) && reachesIface(c.Spec, qs) {
				rt.KnownHit(kfInterface)
				continue
			}
			return fmt.Sprintf("step %d of the history (query %s, via QueryString=%v):\n got  %s\n want %s\n unfiltered %s", step, qtext(qs), viaString, got, want, plain)
		}
	}
	return ""
}

func depthOf(qs []*Q) int {
	d := 0
	for _, q := range qs {
		if x := 1 + depthOf(q.Fields); x > d {
			d = x
		}
	}
	return d
}

func TestCheck(t *testing.T) {
	rt.Rapid(t, "histories", rt.PerShard(rt.N(60000, 800000)), func(t *rapid.T) {
		c := &Case{Spec: genStruct(t, 1), Active: rt.ActiveList()}
		nq := rapid.IntRange(1, 5).Draw(t, "nq")
		c.Queries = append(c.Queries, nil)
		for i := 0; i < nq; i++ {
			c.Queries = append(c.Queries, genQuery(t, c.Spec, true))
		}
		steps := rapid.IntRange(2, 12).Draw(t, "steps")
		for i := 0; i < steps; i++ {
			c.Order = append(c.Order, rapid.IntRange(0, len(c.Queries)-1).Draw(t, "which"))
		}
		rt.Journal("histories", func() string { x, _ := stdjson.Marshal(c); return string(x) })
		rt.Count("cases/histories", 1)
		nt := false
		for _, qs := range c.Queries {
			if depthOf(qs) >= 2 {
				nt = true
			}
		}
		if nt {
			rt.NonTrivial(rt.Hash64(fmt.Sprint(qtext(nil)), func() string { x, _ := stdjson.Marshal(c); return string(x) }()))
			rt.Label("query-depth>=2")
		}
		if rt.WantSample("histories") {
			rt.Sample("histories", map[string]any{"spec": c.Spec, "queries": len(c.Queries), "order": c.Order, "first_query": qtext(c.Queries[1])})
		} else {
			rt.Sample("histories", nil)
		}
		if msg := runCase(c); msg != "" {
			t.Fatalf("%s", rt.Fail(prop, "histories", c, "%s", msg))
		}
	})
}

func TestReplay(t *testing.T) {
	f, err := rt.LoadReplay()
	if err != nil {
		t.Fatal(err)
	}
	var c Case
	if err := stdjson.Unmarshal(f.Case, &c); err != nil {
		t.Fatal(err)
	}
	rt.SetActive(c.Active)
	if msg := runCase(&c); msg != "" {
		t.Fatal(msg)
	}
}

func TestWitness(t *testing.T) {
	one := func(kind string) func() (bool, string) {
		return func() (bool, string) {
			rt.SetActive(nil)
			sub := &SSpec{Fields: []FSpec{{Name: "x", Kind: "int"}, {Name: "y", Kind: "int"}}}
			c := &Case{Spec: &SSpec{Fields: []FSpec{{Name: "a", Kind: "int"}, {Name: "s", Kind: kind, Sub: sub}}}}
			c.Queries = [][]*Q{nil, {{Name: "s", Fields: []*Q{{Name: "x"}}}}}
			c.Order = []int{1}
			msg := runCase(c)
			return msg != "", msg
		}
	}
	known.Witnesses[kfContainers] = one("slice")
	known.Witnesses[kfInterface] = one("iface")
	enc.RunWitness(t)
}
