package c06

import (
	"bytes"
	"context"
	stdjson "encoding/json"
	"encoding/hex"
	"errors"
	"fmt"
	"io"
	"os"
	"reflect"
	"strings"
	"testing"
	"time"

	gojson "github.com/goccy/go-json"
	"pgregory.net/rapid"

	_ "verif/harness/dec"
	"verif/harness/enc"
	"verif/harness/gen"
	"verif/harness/jsongen"
	"verif/harness/known"
	"verif/harness/ref"
	"verif/harness/rt"
)

const prop = "C06"

func TestMain(m *testing.M) {
	code := m.Run()
	rt.Flush()
	os.Exit(code)
}

// ---- destinations

type Node struct {
	V    int
	Next *Node
	Kids []Node
	M    map[string]*Node
	I    interface{}
}

type allKinds struct {
	B    bool
	I8   int8
	I16  int16
	I32  int32
	I64  int64
	U8   uint8
	U64  uint64
	F32  float32
	F64  float64
	S    string
	By   []byte
	N    stdjson.Number
	R    stdjson.RawMessage
	T    time.Time
	P    *int
	PP   **string
	Sl   []int
	Ar   [2]string
	A0   [0]int
	M    map[string]int
	MI   map[int8]string
	MU   map[uint64]bool
	MK   map[gen.KeyMT]int
	If   interface{}
	IS   int     `json:"is,string"`
	BS   bool    `json:"bs,string"`
	SS   string  `json:"ss,string"`
	FS   float64 `json:"fs,string"`
	PS   *int    `json:"ps,string"`
	UJ   gen.RecUJ
	UT   gen.RecUT
	PUJ  *gen.RecUJ
	Emb  gen.EmbA
	Rec  *Node
	Omit int `json:"omit,omitempty"`
	Dash int `json:"-"`
	gen.EmbC
}

var fixedDests = []reflect.Type{
	reflect.TypeOf((*interface{})(nil)).Elem(), reflect.TypeOf(allKinds{}), reflect.TypeOf(Node{}), reflect.TypeOf([]interface{}(nil)),
	reflect.TypeOf(map[string]interface{}(nil)), reflect.TypeOf(struct{}{}), reflect.TypeOf(0), reflect.TypeOf(""), reflect.TypeOf([]byte(nil)),
	reflect.TypeOf([2]int{}), reflect.TypeOf(map[int]int(nil)), reflect.TypeOf(gen.RecUJ{}), reflect.TypeOf(gen.RecUT{}), reflect.TypeOf(stdjson.RawMessage(nil)),
	reflect.TypeOf(stdjson.Number("")), reflect.TypeOf(false), reflect.TypeOf(1.5), reflect.TypeOf(float32(0)), reflect.TypeOf(uint8(0)), reflect.TypeOf(time.Time{}),
	reflect.TypeOf((*int)(nil)), reflect.TypeOf([]*Node(nil)), reflect.TypeOf(map[string][]map[string][2]bool(nil)), reflect.TypeOf(struct {
		A int `json:"a"`
	}{}), reflect.TypeOf([][]int(nil)), reflect.TypeOf(map[gen.KeyMT]gen.RecUT(nil)),
}

var paths []*gojson.Path

func init() {
	for _, p := range []string{"$", "$.a", "$.a.b", "$[0]", "$[1].a", "$[*]", "$..a", "$.a[*].b", "$['a']", `$["a b"]`, "$.*", "$..*", "$[*][0]", "$.a..b"} {
		if x, err := gojson.CreatePath(p); err == nil {
			paths = append(paths, x)
		}
	}
}

const kfNulPanic = "FX-C06-nul-byte-in-stream-panics"

// entry points that read through the stream decoder
var streamSteps = map[string]bool{"Decoder.Decode": true, "Valid": true, "Decoder(UseNumber,Disallow)": true, "Decoder.Token": true,
	"Decoder(Token+Decode mixed)": true, "Decoder(failing reader)": true, "HTMLEscape": true}

type badReader struct {
	r      io.Reader
	failAt int
	n      int
}

func (b *badReader) Read(p []byte) (int, error) {
	if b.n >= b.failAt {
		return 0, errors.New("injected")
	}
	if len(p) > b.failAt-b.n {
		p = p[:b.failAt-b.n]
	}
	n, err := b.r.Read(p)
	b.n += n
	return n, err
}

type Case struct {
	Hex    string        `json:"hex"`
	Text   string        `json:"text"`
	Dest   int           `json:"dest"`           // index into fixedDests, or -1 with Spec
	Spec   *gen.TypeSpec `json:"spec,omitempty"` // generated destination
	Pieces []int         `json:"pieces,omitempty"`
	FailAt int           `json:"fail_at,omitempty"`
	Bomb   string        `json:"bomb,omitempty"`
}

func destOf(c *Case) reflect.Type {
	if c.Spec != nil {
		return enc.SafeType(c.Spec)
	}
	return fixedDests[((c.Dest%len(fixedDests))+len(fixedDests))%len(fixedDests)]
}

// exercise calls every decoding/utility entry point on the input and returns a description of the
// first panic ("" = every call returned).
func exercise(c *Case, b []byte, typ reflect.Type, heavy bool) string {
	try := func(name string, f func()) string {
		if pv := rt.Guard(f); pv != nil {
			return fmt.Sprintf("%s panicked: %v", name, pv)
		}
		return ""
	}
	steps := []struct {
		name string
		f    func()
	}{
		{"Unmarshal", func() { gojson.Unmarshal(b, reflect.New(typ).Interface()) }},
		{"Decoder.Decode", func() {
			d := gojson.NewDecoder(jsongen.NewChunkReader(b, append([]int{}, c.Pieces...)))
			for i := 0; i < 4; i++ {
				if d.Decode(reflect.New(typ).Interface()) != nil {
					break
				}
			}
			d.More()
			d.InputOffset()
			io.Copy(io.Discard, d.Buffered())
		}},
		{"Decoder(stuttering reader, one large piece)", func() {
			// a read that returns no data and no error, then everything at once (more than the initial window)
			if len(b) > 100000 {
				return // the large bombs go through the plain readers above
			}
			data := append(bytes.Repeat([]byte(" "), 600), b...)
			d := gojson.NewDecoder(jsongen.NewChunkReader(data, []int{0, len(data)}))
			d.Decode(reflect.New(typ).Interface())
			d.More()
			d2 := gojson.NewDecoder(jsongen.NewChunkReader(data, []int{3, 0, 0, len(data)}))
			for i := 0; i < 8; i++ {
				if _, err := d2.Token(); err != nil {
					break
				}
			}
		}},
		{"Valid", func() { gojson.Valid(b) }},
		{"Compact", func() { var d bytes.Buffer; gojson.Compact(&d, b) }},
		{"Indent", func() { var d bytes.Buffer; gojson.Indent(&d, b, ">", "\t") }},
	}
	if heavy {
		steps = append(steps, []struct {
			name string
			f    func()
		}{
			{"UnmarshalWithOption(first-win)", func() {
				gojson.UnmarshalWithOption(b, reflect.New(typ).Interface(), gojson.DecodeFieldPriorityFirstWin())
			}},
			{"UnmarshalContext", func() { gojson.UnmarshalContext(context.Background(), b, reflect.New(typ).Interface()) }},
			{"UnmarshalNoEscape", func() { gojson.UnmarshalNoEscape(b, reflect.New(typ).Interface()) }},
			{"Decoder(UseNumber,Disallow)", func() {
				d := gojson.NewDecoder(bytes.NewReader(b))
				d.UseNumber()
				d.DisallowUnknownFields()
				d.Decode(reflect.New(typ).Interface())
			}},
			{"Decoder.Token", func() {
				d := gojson.NewDecoder(jsongen.NewChunkReader(b, append([]int{}, c.Pieces...)))
				for i := 0; i < len(b)+3; i++ {
					if _, err := d.Token(); err != nil {
						break
					}
					d.More()
					d.InputOffset()
				}
			}},
			{"Decoder(Token+Decode mixed)", func() {
				d := gojson.NewDecoder(bytes.NewReader(b))
				d.Token()
				d.More()
				d.Decode(reflect.New(typ).Interface())
				d.Token()
			}},
			{"Decoder(failing reader)", func() {
				d := gojson.NewDecoder(&badReader{r: bytes.NewReader(b), failAt: c.FailAt})
				d.Decode(reflect.New(typ).Interface())
				d.More()
			}},
			{"HTMLEscape", func() { var d bytes.Buffer; gojson.HTMLEscape(&d, b) }},
			{"Path.Extract/Unmarshal", func() {
				for _, p := range paths {
					p.Extract(b)
					p.Unmarshal(b, reflect.New(typ).Interface())
				}
			}},
			{"CreatePath(input)", func() {
				if len(b) < 64 {
					if p, err := gojson.CreatePath(string(b)); err == nil {
						p.Extract([]byte(`{"a":{"b":[1,{"a":2}]},"0":[[3]]}`))
						p.PathString()
						var out interface{}
						p.Get(map[string]interface{}{"a": []interface{}{1, map[string]interface{}{"b": 2}}}, &out)
						p.Get(allKinds{}, &out)
						p.Get(&Node{Next: &Node{}}, &out)
					}
				}
			}},
		}...)
	}
	hasNul := bytes.IndexByte(b, 0) >= 0
	for _, s := range steps {
		if msg := try(s.name, s.f); msg != "" {
			if hasNul && rt.Active(kfNulPanic) && streamSteps[s.name] {
				rt.KnownHit(kfNulPanic)
				continue
			}
			return msg
		}
	}
	return ""
}

func runCase(sub string, c *Case, b []byte, heavy bool) string {
	typ := destOf(c)
	if typ == nil {
		return ""
	}
	rt.Journal(sub, func() string { x, _ := stdjson.Marshal(c); return string(x) })
	rt.Count("cases/"+sub, 1)
	if msg := exercise(c, b, typ, heavy); msg != "" {
		c.Text = clip(string(b))
		return rt.Fail(prop, sub, c, "%s\n destination %s\n input %q", msg, typ, clip(string(b)))
	}
	return ""
}

func clip(s string) string {
	if len(s) > 300 {
		return s[:300] + "…"
	}
	return s
}

var alphabet = []byte("[]{},:\"\\u01-+.eEtralsnf \x00\x01\x7f\xc3\xa9/b")

func TestCheck(t *testing.T) {
	// (a) prefixes and single-byte mutations of generated valid texts, generated and fixed destinations
	rt.Rapid(t, "mutations", rt.PerShard(rt.N(4000, 100000)), func(t *rapid.T) {
		c := &Case{Dest: rapid.IntRange(0, len(fixedDests)-1).Draw(t, "dest")}
		var doc []byte
		if rapid.IntRange(0, 3).Draw(t, "gen") == 0 {
			tc := gen.DefaultTypeCfg()
			tc.Leaves = append(append([]string{}, gen.PlainLeaves...), gen.UnmarshalLeaves...)
			tc.KeyKinds = append(append([]string{}, gen.DefaultKeyKinds...), "leaf:KeyMT")
			tc.Wide = true
			c.Spec = gen.GenType(t, tc)
			known.RepairDecSpec(c.Spec)
			c.Dest = -1
			doc = jsongen.Typed(t, c.Spec, jsongen.DefaultTyped)
		} else {
			cfg := jsongen.DefaultCfg
			cfg.BigNumbers = true
			doc = jsongen.Gen(t, cfg).Render()
		}
		if len(doc) > 400 {
			t.Skip("long")
		}
		c.Pieces = jsongen.Chunks(t, len(doc)+1)
		c.FailAt = rapid.IntRange(0, len(doc)).Draw(t, "failat")
		nt := 0
		one := func(m []byte) {
			c.Hex = hex.EncodeToString(m)
			if msg := runCase("mutations", c, m, true); msg != "" {
				t.Fatalf("%s", msg)
			}
			if !ref.Valid(m) {
				nt++
				rt.NonTrivial(rt.Hash64(fmt.Sprint(c.Dest), fmt.Sprint(c.Spec), string(m), fmt.Sprint(c.Pieces)))
			}
		}
		one(doc)
		for i := 0; i < len(doc); i++ {
			one(doc[:i]) // every truncation
		}
		m := make([]byte, 0, len(doc)+1)
		for k := 0; k < 40; k++ {
			i := rapid.IntRange(0, len(doc)).Draw(t, "pos")
			a := rapid.SampledFrom(jsongen.MutAlphabet).Draw(t, "byte")
			switch rapid.IntRange(0, 2).Draw(t, "mut") {
			case 0:
				if i < len(doc) {
					m = append(append(m[:0], doc[:i]...), doc[i+1:]...)
				}
			case 1:
				m = append(append(append(m[:0], doc[:i]...), a), doc[i:]...)
			default:
				m = append(m[:0], doc...)
				if i < len(m) {
					m[i] = a
				}
			}
			one(m)
		}
		rt.Sample("mutations", map[string]any{"doc": clip(string(doc)), "dest": destOf(c).String(), "invalid_variants": nt})
	})
	// (b) exhaustive short strings x destinations
	t.Run("enum", func(t *testing.T) {
		L := 3
		if rt.Thorough() {
			L = 4
		}
		var idx, mine int64
		buf := make([]byte, 0, L)
		failed := false
		var rec func(d int)
		rec = func(d int) {
			if failed {
				return
			}
			if idx%int64(rt.E.NShards) == int64(rt.E.Shard) {
				for k := 0; k < 3; k++ {
					c := &Case{Dest: int(idx)*3 + k, Hex: hex.EncodeToString(buf), Pieces: []int{1, 1, 1, 1, 1}}
					if msg := runCase("enum", c, buf, false); msg != "" {
						t.Error(msg)
						failed = true
						return
					}
					mine++
				}
			}
			idx++
			if d == L {
				return
			}
			for _, a := range alphabet {
				buf = append(buf, a)
				rec(d + 1)
				buf = buf[:len(buf)-1]
			}
		}
		rec(0)
		rt.NonTrivialDistinct(mine)
		rt.Exhaustive(fmt.Sprintf("all byte strings of length <= %d over the structural alphabet x 3 destinations each (cycling through %d fixed destination types)", L, len(fixedDests)))
		rt.Sample("enum", map[string]any{"strings_x_dests": mine})
	})
	// (c) nesting bombs
	t.Run("bombs", func(t *testing.T) {
		sizes := []int{1000, 10000, 10001, 100000, 1000000}
		if rt.Thorough() {
			sizes = append(sizes, 10000000)
		}
		type bomb struct {
			name string
			mk   func(n int) []byte
		}
		rep := func(s string, n int) string { return strings.Repeat(s, n) }
		bombs := []bomb{
			{"open-arrays", func(n int) []byte { return []byte(rep("[", n)) }},
			{"closed-arrays", func(n int) []byte { return []byte(rep("[", n) + rep("]", n)) }},
			{"open-objects", func(n int) []byte { return []byte(rep(`{"a":`, n)) }},
			{"closed-objects", func(n int) []byte { return []byte(rep(`{"a":`, n) + "1" + rep("}", n)) }},
			{"mixed", func(n int) []byte { return []byte(rep(`[{"a":`, n/2) + "null" + rep("}]", n/2)) }},
			{"ignored-member", func(n int) []byte { return []byte(`{"zz":` + rep("[", n) + rep("]", n) + `,"V":1}`) }},
			{"ignored-member-open", func(n int) []byte { return []byte(`{"zz":` + rep("[", n)) }},
			{"unmarshaler-payload", func(n int) []byte { return []byte(`{"UJ":` + rep("[", n) + rep("]", n) + `}`) }},
			{"next-chain", func(n int) []byte { return []byte(rep(`{"Next":`, n) + "null" + rep("}", n)) }},
			{"kids-chain", func(n int) []byte { return []byte(rep(`{"Kids":[`, n) + rep("]}", n)) }},
			{"long-string", func(n int) []byte {
				if n > 1000000 { // invalid bytes make the stream decoder quadratic (slow, not a hang): keep them sparse in the largest size
					return []byte(`"` + rep(rep("x", 4088)+"\xff\\u00e9x", n/4096) + `"`)
				}
				return []byte(`"` + rep("\xff\\u00e9x", n/8) + `"`)
			}},
			{"long-number", func(n int) []byte { return []byte(rep("9", n)) }},
			{"many-commas", func(n int) []byte { return []byte("[" + rep("1,", n) + "1]") }},
		}
		i := 0
		for _, bm := range bombs {
			szs := sizes
			if strings.HasSuffix(bm.name, "-chain") && !rt.Thorough() {
				szs = append(append([]int{}, sizes...), 4000000) // deep enough to overflow the stack if a depth check is missing
			}
			for _, n := range szs {
				if i%rt.E.NShards == rt.E.Shard {
					b := bm.mk(n)
					for _, dest := range []int{0, 1, 2, 11} { // interface{}, allKinds, Node, RecUJ
						c := &Case{Dest: dest, Bomb: fmt.Sprintf("%s/%d", bm.name, n), Pieces: []int{511, 1, 512, 1000}}
						c.FailAt = len(b) / 2
						rt.JournalS("bombs", fmt.Sprintf(`{"bomb":%q,"dest":%d}`, c.Bomb, dest))
						rt.Count("cases/bombs", 1)
						rt.NonTrivial(rt.Hash64("bomb", c.Bomb, fmt.Sprint(dest)))
						// the full entry-point set up to 10^5; beyond that only the five basic entry points (some
						// stream paths are quadratic in the number of invalid bytes, which is slow, not a hang)
						if msg := exercise(c, b, destOf(c), n <= 100000); msg != "" {
							t.Error(rt.Fail(prop, "bombs", c, "%s (bomb %s, destination %s)", msg, c.Bomb, destOf(c)))
						}
					}
				}
				i++
			}
		}
		rt.Sample("bombs", map[string]any{"sizes": sizes, "shapes": len(bombs)})
	})
	// (d) path strings
	t.Run("paths", func(t *testing.T) {
		alpha := []byte("$.[]*'\"01ab")
		L := 5
		if rt.Thorough() {
			L = 6
		}
		var idx, mine int64
		buf := make([]byte, 0, L)
		docs := [][]byte{[]byte(`{"a":{"b":[1,{"a":2,"b":null}],"1":"x"},"b":[[3],[]],"0":0}`), []byte(`[{"a":1},[0,1,[2]],"s",null]`), []byte(`{"a":`)}
		failed := false
		var rec func(d int)
		rec = func(d int) {
			if failed {
				return
			}
			if idx%int64(rt.E.NShards) == int64(rt.E.Shard) {
				mine++
				ps := string(buf)
				rt.Journal("paths", func() string { return fmt.Sprintf(`{"path":%q}`, ps) })
				pv := rt.Guard(func() {
					p, err := gojson.CreatePath(ps)
					if err != nil {
						return
					}
					for _, d := range docs {
						p.Extract(d)
						var v interface{}
						p.Unmarshal(d, &v)
					}
					p.PathString()
					var out interface{}
					p.Get(map[string]interface{}{"a": []interface{}{1, map[string]interface{}{"b": 2}}, "b": 1}, &out)
					p.Get(allKinds{}, &out)
					p.Get([]int{1, 2}, &out)
				})
				if pv != nil {
					t.Error(rt.Fail(prop, "paths", map[string]any{"path": ps}, "path %q: panic: %v", ps, pv))
					failed = true
					return
				}
			}
			idx++
			if d == L {
				return
			}
			for _, a := range alpha {
				buf = append(buf, a)
				rec(d + 1)
				buf = buf[:len(buf)-1]
			}
		}
		rec(0)
		rt.Count("cases/paths", mine)
		rt.NonTrivialDistinct(mine)
		rt.Exhaustive(fmt.Sprintf("all path strings of length <= %d over %q through CreatePath, Extract/Unmarshal on 3 documents, Get on 3 sources", L, alpha))
		rt.Sample("paths", map[string]any{"paths": mine})
	})
}

func TestReplay(t *testing.T) {
	f, err := rt.LoadReplay()
	if err != nil {
		t.Fatal(err)
	}
	var c Case
	if err := stdjson.Unmarshal(f.Case, &c); err != nil {
		t.Fatal(err)
	}
	if c.Bomb != "" {
		t.Skip("bombs are regenerated by the check itself")
	}
	var p struct{ Path string }
	stdjson.Unmarshal(f.Case, &p)
	if p.Path != "" {
		x, err := gojson.CreatePath(p.Path)
		if err == nil {
			x.Extract([]byte(`{"a":{"b":[1,{"a":2,"b":null}],"1":"x"},"b":[[3],[]],"0":0}`))
			var out interface{}
			x.Get(allKinds{}, &out)
		}
		return
	}
	b, err := hex.DecodeString(c.Hex)
	if err != nil {
		t.Fatal(err)
	}
	if msg := runCase("replay", &c, b, true); msg != "" {
		t.Fatal(msg)
	}
}

func TestWitness(t *testing.T) {
	known.Witnesses[kfNulPanic] = func() (bool, string) {
		b := []byte{'"', 0, 'a', 0xc3, 0xa9, 'a', '"'}
		pv := rt.Guard(func() {
			d := gojson.NewDecoder(jsongen.NewChunkReader(b, []int{4, 1, 3}))
			for i := 0; i < 5; i++ {
				if _, err := d.Token(); err != nil {
					break
				}
			}
		})
		return pv != nil, fmt.Sprintf("panic=%v", pv)
	}
	known.RunWitness()
}
