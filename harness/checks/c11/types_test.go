package c11

import (
	"context"

	gojson "github.com/goccy/go-json"

	stdjson "encoding/json"
	"errors"
	"fmt"
	"reflect"
	"strings"
)

// ---- the type universe of the call pool

type Node struct {
	V    int
	Next *Node
	I    interface{}
}

// Fail is a marshaler whose behaviour is chosen by the value: "err" returns an error, "panic" panics.
type Fail struct{ Mode string }

func (f Fail) MarshalJSON() ([]byte, error) {
	switch f.Mode {
	case "err":
		return nil, errors.New("Fail refuses")
	case "panic":
		panic("Fail panics")
	}
	return []byte(`"fail-ok:` + f.Mode + `"`), nil
}

type TextFail struct{ Mode string }

func (f TextFail) MarshalText() ([]byte, error) {
	if f.Mode == "err" {
		return nil, errors.New("TextFail refuses")
	}
	return []byte("tf<" + f.Mode + ">"), nil
}

// CtxM is a context-aware marshaler: it reports whether the context it was given carries the marker.
type ctxKey struct{}

type CtxM struct{ A int }

func (c CtxM) MarshalJSON(ctx context.Context) ([]byte, error) {
	m := "none"
	if ctx != nil {
		if v, ok := ctx.Value(ctxKey{}).(string); ok {
			m = v
		}
	}
	return []byte(fmt.Sprintf(`{"ctx":%q,"a":%d}`, m, c.A)), nil
}

type CtxU struct{ Seen string }

func (c *CtxU) UnmarshalJSON(ctx context.Context, b []byte) error {
	c.Seen = "none"
	if ctx != nil {
		if v, ok := ctx.Value(ctxKey{}).(string); ok {
			c.Seen = v
		}
	}
	c.Seen += ":" + string(b)
	return nil
}

// UFail is an unmarshaler refusing inputs that contain FAIL, panicking on PANIC.
type UFail struct{ Got string }

func (u *UFail) UnmarshalJSON(b []byte) error {
	if strings.Contains(string(b), "PANIC") {
		panic("UFail panics")
	}
	if strings.Contains(string(b), "FAIL") {
		return errors.New("UFail refuses")
	}
	u.Got = string(b)
	return nil
}

type TU struct{ Got string }

func (u *TU) UnmarshalText(b []byte) error {
	if string(b) == "FAIL" {
		return errors.New("TU refuses")
	}
	u.Got = string(b)
	return nil
}

// CtxFwd is a context-aware marshaler that forwards the context it was given (and with it the sub
// query go-json attached for this member) to a nested encoding.
type CtxFwd struct {
	P int
	Q string
	R []int
}

type ctxFwdAlias CtxFwd

func (c CtxFwd) MarshalJSON(ctx context.Context) ([]byte, error) {
	return gojson.MarshalContext(ctx, ctxFwdAlias(c))
}

type Plain9 struct {
	A int
	M CtxFwd
	B string
	N Inner
	L []CtxFwd
}

type Inner struct {
	X int    `json:"x"`
	Y string `json:"y,omitempty"`
}

type Holder struct {
	A  int
	S  string
	F  Fail
	T  TextFail
	M  map[string]int
	L  []string
	P  *Holder
	I  interface{}
	B  []byte
	N  stdjson.Number
	R  stdjson.RawMessage
	In Inner
	Q  int64   `json:"q,string"`
	W  float64 `json:"w,string"`
	C  CtxM
}

type Wide struct {
	A, B, C, D, E int
	M             map[string]interface{}
	P             *Wide
	S             []Wide
}

type Dec struct {
	A  int
	S  string
	U  UFail
	T  TU
	M  map[string][]int
	L  []Inner
	P  *Dec
	I  interface{}
	B  []byte
	N  stdjson.Number
	R  stdjson.RawMessage
	Q  int64  `json:"q,string"`
	Z  string `json:"z,string"`
	C  CtxU
	Ar [3]int
}

type Emb struct {
	Inner
	K map[string]Inner
	V []*Emb
}

type Plain1 struct {
	A int
	B string
	C bool
}
type Plain2 struct {
	A float64 `json:"a"`
	B []int   `json:"b"`
	C *Plain1 `json:"c"`
}
type Plain3 struct {
	M map[string]Plain1
	I interface{}
	X [2]Plain1
}
type Plain4 struct {
	A uint8
	B int16 `json:",string"`
	C string
	D *string
	E []byte
}
type Plain5 struct {
	N *Plain5
	S []Plain5
	V map[string]*Plain5
	A int
}
type Plain6 struct {
	Inner
	Z string
	I interface{}
}
type Plain7 struct {
	F CtxM
	A int
	B string
	C []CtxM
}
type Plain8 struct {
	A map[int]string
	B map[string]map[string]int
	C [][]string
}

var typeTable = map[string]reflect.Type{
	"Node": reflect.TypeOf(Node{}), "Holder": reflect.TypeOf(Holder{}), "Wide": reflect.TypeOf(Wide{}), "Dec": reflect.TypeOf(Dec{}), "Emb": reflect.TypeOf(Emb{}),
	"Plain1": reflect.TypeOf(Plain1{}), "Plain2": reflect.TypeOf(Plain2{}), "Plain3": reflect.TypeOf(Plain3{}), "Plain4": reflect.TypeOf(Plain4{}),
	"Plain5": reflect.TypeOf(Plain5{}), "Plain6": reflect.TypeOf(Plain6{}), "Plain7": reflect.TypeOf(Plain7{}), "Plain8": reflect.TypeOf(Plain8{}),
	"map": reflect.TypeOf(map[string]interface{}{}), "slice": reflect.TypeOf([]interface{}{}), "iface": reflect.TypeOf((*interface{})(nil)).Elem(),
	"Plain9": reflect.TypeOf(Plain9{}), "UFail": reflect.TypeOf(UFail{}), "TU": reflect.TypeOf(TU{}), "CtxU": reflect.TypeOf(CtxU{}),
	"ints": reflect.TypeOf([]int{}), "strmap": reflect.TypeOf(map[string]string{}), "CtxM": reflect.TypeOf(CtxM{}), "Fail": reflect.TypeOf(Fail{}),
	"inners": reflect.TypeOf([]Inner{}), "wides": reflect.TypeOf([]Wide{}), "decs": reflect.TypeOf([]*Dec{}),
}

var encTypes = []string{"Node", "Holder", "Wide", "Emb", "Plain9", "Plain9", "Plain1", "Plain2", "Plain3", "Plain4", "Plain5", "Plain6", "Plain7", "Plain8", "map", "slice", "ints", "strmap", "CtxM"}
var decTypes = []string{"Node", "Dec", "Wide", "Emb", "Plain1", "Plain2", "Plain3", "Plain4", "Plain5", "Plain6", "Plain8", "map", "slice", "iface", "ints", "strmap"}
var queryTypes = []string{"Plain1", "Plain2", "Plain4", "Plain7", "Holder", "Wide", "Plain9", "Plain9", "Plain9"}
