package c11

import (
	"bufio"
	"bytes"
	"context"
	stdjson "encoding/json"
	"fmt"
	"os"
	"os/exec"
	"reflect"
	"sort"
	"strings"
	"sync"
	"testing"
	"time"

	"pgregory.net/rapid"

	"verif/harness/corpus"
	_ "verif/harness/dec"
	"verif/harness/enc"
	"verif/harness/rt"
)

const prop = "C11"

func TestMain(m *testing.M) {
	code := m.Run()
	rt.Flush()
	os.Exit(code)
}

// ---- the call pool (a pure function of the seed)

var pathPool = []string{"$.A", "$.S", "$.M.a", "$.L[0]", "$.P.A", "$.P.P.S", "$.missing", "$.In.x", "$..x", "$.L[1]", "$.M", "$[0]", "$.K.a.x", "$.V[0].x"}

func fieldNames(t reflect.Type) []string {
	var out []string
	for i := 0; i < t.NumField(); i++ {
		f := t.Field(i)
		if f.PkgPath != "" || f.Anonymous {
			continue
		}
		name := f.Name
		if tag := strings.Split(f.Tag.Get("json"), ",")[0]; tag != "" {
			name = tag
		}
		out = append(out, name)
	}
	return out
}

func validDoc(typ string, seed uint64) string {
	t := typeTable[typ]
	v := corpus.NewFiller(seed, 50).Fill(t)
	sanitize(v)
	b, err := stdjson.Marshal(v.Interface())
	if err != nil {
		return "{}"
	}
	return string(b)
}

// validSliceDoc is a valid document for the type with at least two elements in its slice(s) of structs.
func validSliceDoc(f *corpus.Filler, typ string) string {
	for try := 0; try < 20; try++ {
		d := validDoc(typ, f.Next64())
		if len(elementSeparators(d)) > 0 {
			return d
		}
	}
	if typ == "Dec" {
		return `{"A":1,"L":[{"x":1,"y":"a"},{"x":2,"y":"b"},{"x":3,"y":"c"}]}`
	}
	return `[{"x":1,"y":"a","A":1,"L":[{"x":7,"y":"q"},{"x":8,"y":"r"}]},{"x":2,"y":"b","A":2},{"x":3,"y":"c","A":3}]`
}

// elementSeparators lists the offsets of the commas that follow an object inside an array ("},{").
func elementSeparators(d string) []int {
	var out []int
	for i := 1; i+1 < len(d); i++ {
		if d[i] == ',' && d[i-1] == '}' && d[i+1] == '{' {
			out = append(out, i)
		}
	}
	return out
}

// sparseDoc drops members of the objects of a document (about half of them, at every depth below the root value).
func sparseDoc(f *corpus.Filler, d string) string {
	dec := stdjson.NewDecoder(strings.NewReader(d))
	dec.UseNumber()
	var v interface{}
	if dec.Decode(&v) != nil {
		return d
	}
	var walk func(x interface{}, depth int) interface{}
	walk = func(x interface{}, depth int) interface{} {
		switch t := x.(type) {
		case map[string]interface{}:
			keys := make([]string, 0, len(t))
			for k := range t {
				keys = append(keys, k)
			}
			sort.Strings(keys)
			for _, k := range keys {
				if depth > 0 && f.Intn(2) == 0 {
					delete(t, k)
				} else {
					t[k] = walk(t[k], depth+1)
				}
			}
		case []interface{}:
			for i := range t {
				t[i] = walk(t[i], depth+1)
			}
		}
		return x
	}
	b, err := stdjson.Marshal(walk(v, 0))
	if err != nil {
		return d
	}
	return string(b)
}

func pick2(f *corpus.Filler, l []int) int { return l[f.Intn(len(l))] }

// drawQuery builds a field-query string over the members of t, with sub queries on struct-typed members.
func drawQuery(f *corpus.Filler, t reflect.Type) string {
	var sel []interface{}
	for i := 0; i < t.NumField(); i++ {
		fld := t.Field(i)
		if fld.PkgPath != "" || fld.Anonymous || f.Intn(3) == 0 {
			continue
		}
		nm := fld.Name
		if tag := strings.Split(fld.Tag.Get("json"), ",")[0]; tag != "" {
			nm = tag
		}
		ft := fld.Type
		for ft.Kind() == reflect.Ptr || ft.Kind() == reflect.Slice {
			ft = ft.Elem()
		}
		if ft.Kind() == reflect.Struct && ft.NumField() > 0 && f.Intn(2) == 0 { // a sub query on a struct-typed member
			var sub []string
			for _, sn := range fieldNames(ft) {
				if f.Intn(2) == 0 {
					sub = append(sub, sn)
				}
			}
			if len(sub) > 0 {
				sel = append(sel, map[string][]string{nm: sub})
				continue
			}
		}
		sel = append(sel, nm)
	}
	if len(sel) == 0 {
		sel = append(sel, fieldNames(t)[0])
	}
	q, _ := stdjson.Marshal(sel)
	return string(q)
}

func buildPool(seed uint64, n int) []Call {
	f := corpus.NewFiller(seed, 1<<30)
	pick := func(l []string) string { return l[f.Intn(len(l))] }
	encOptSets := []int{0, 0, 1, 2, 4, 8, 16, 4 | 8, 2 | 4, 16 | 4, 1 | 4}
	indents := [][2]string{{"", " "}, {"", "\t"}, {">", "  "}, {"", ""}}
	var pool []Call
	for len(pool) < n {
		var c Call
		switch k := f.Intn(27); {
		case k >= 24: // slices of structs: sparse documents (omitted members) and documents that break off at an element separator
			c.Op = pick([]string{"unmarshal", "unmarshal", "unmarshal-context", "decoder"})
			c.Type = pick([]string{"inners", "inners", "wides", "decs", "Dec"})
			c.Doc = sparseDoc(f, validSliceDoc(f, c.Type))
			if seps := elementSeparators(c.Doc); len(seps) > 0 && f.Intn(2) == 0 {
				c.Doc = "!" + c.Doc[:seps[f.Intn(len(seps))]] + pick([]string{"", "", ";", "}", " "})
			}
		case k >= 20 && k < 22: // filtered encodings: several queries (with and without sub queries) per type
			c.Op = pick([]string{"context", "context", "encoder"})
			c.Type = pick(queryTypes)
			c.Fill = f.Next64()
			c.Marker = pick([]string{"", "m1"})
			if c.Op == "encoder" {
				c.Marker = "m1"
			}
			c.Query = drawQuery(f, typeTable[c.Type])
			if f.Intn(4) == 0 {
				c.Opts = pick2(f, []int{4, 16, 2})
			}
		case k >= 22: // one Decoder: calls that fail with the stream still in step, and calls that show leftover state
			c.Op = "decoder"
			switch s := f.Intn(8); {
			case s < 2: // the whole top-level value is consumed, then the unmarshaler refuses it
				c.Doc, c.Type = "!"+`"FAIL"`, pick([]string{"UFail", "TU"})
				c.Opts = pick2(f, []int{0, 32, 32})
				c.Marker = pick([]string{"", "m1", "m2"})
			case s == 2: // fails before anything is read
				c.Spec, c.Type, c.Marker = "bad-dst", pick([]string{"Plain1", "Dec"}), pick([]string{"m1", "m2"})
				c.Doc = "{}"
			case s < 5: // duplicate keys, no option: last one wins
				c.Doc, c.Type = `{"A":1,"A":2,"S":"x","S":"y"}`, pick([]string{"Dec", "Plain1"})
				c.Opts = pick2(f, []int{0, 0, 32})
			case s < 7: // a context-aware unmarshaler reports the context it was given
				c.Doc, c.Type = `{"A":3,"C":{"k":1}}`, "Dec"
				c.Marker = pick([]string{"", "", "m2"})
			default:
				c.Doc, c.Type = `[1,2]`, "CtxU"
				c.Marker = pick([]string{"", "m1"})
			}
		case k < 9: // encoding
			c.Op = pick([]string{"marshal", "marshal", "indent", "opts", "context", "noescape", "encoder", "encoder"})
			c.Type = pick(encTypes)
			c.Fill = f.Next64()
			switch s := f.Intn(20); {
			case s < 4:
				c.Spec = "err"
			case s == 4:
				c.Spec = "panic"
			case s == 5:
				c.Spec, c.Type = "cycle", "Node"
			case s == 6:
				c.Spec, c.Type = "mapcycle", "map"
			case s == 7 || s == 8:
				c.Spec, c.Type = "deep", "Node"
			}
			if c.Op != "marshal" && c.Op != "noescape" {
				c.Opts = encOptSets[f.Intn(len(encOptSets))]
			}
			if c.Op == "indent" || (c.Op == "encoder" && f.Intn(2) == 0) {
				in := indents[f.Intn(len(indents))]
				c.Prefix, c.Indent = in[0], in[1]
			}
			if c.Op == "context" || (c.Op == "encoder" && f.Intn(3) == 0) {
				c.Marker = pick([]string{"m1", "m2"})
				if c.Op == "context" && c.Spec == "" && f.Intn(3) != 0 {
					c.Type = pick(queryTypes)
					c.Query = drawQuery(f, typeTable[c.Type])
				}
			}
			if c.Opts&2 != 0 { // unordered output is compared after re-serialising it: it has to be plain JSON
				c.Opts &^= 1
				c.Prefix = ""
			}
		case k < 15: // decoding
			c.Op = pick([]string{"unmarshal", "unmarshal", "unmarshal-context", "unmarshal-noescape", "decoder", "decoder"})
			c.Type = pick(decTypes)
			c.Doc = validDoc(c.Type, f.Next64())
			switch s := f.Intn(20); {
			case s < 3 && len(c.Doc) > 2: // syntax error at a drawn position
				c.Doc = "!" + c.Doc[:1+f.Intn(len(c.Doc)-1)]
			case s == 3:
				c.Doc = "!" + `{"A":"not a number","S":5}`
				c.Type = pick([]string{"Dec", "Plain1", "Wide"})
			case s == 4:
				c.Doc, c.Type = "!"+`{"A":1,"U":"FAIL","S":"after"}`, "Dec"
			case s == 5:
				c.Doc, c.Type = "!"+`{"A":1,"U":"PANIC","S":"after"}`, "Dec"
			case s == 6:
				c.Doc, c.Type = "!"+`{"T":"FAIL","q":"12"}`, "Dec"
			case s == 7:
				c.Doc, c.Type = `{"A":1,"A":2,"S":"x","S":"y"}`, pick([]string{"Dec", "Plain1"})
				c.Opts = 32
			case s == 9 || s == 10: // a top-level value refused by its unmarshaler (the whole value was consumed)
				c.Doc, c.Type = "!"+`"FAIL"`, pick([]string{"UFail", "TU"})
			case s == 11 && strings.HasPrefix(c.Op, "decoder"): // fails before anything is read
				c.Spec = "bad-dst"
			case s == 8:
				c.Doc, c.Type = `{"q":"77","z":"\"quoted\"","Ar":[1,2,3,4],"M":{"k":[1,2]},"L":[{"x":1},{"x":2,"y":"b"}]}`, "Dec"
			}
			if c.Opts == 0 && f.Intn(6) == 0 {
				c.Opts = 32
			}
			if c.Op == "unmarshal-context" || (c.Op == "decoder" && f.Intn(3) == 0) {
				c.Marker = pick([]string{"m1", "m2"})
			}
		case k < 18: // paths
			c.Op = pick([]string{"path-unmarshal", "path-extract", "path-get"})
			c.Path = pick(pathPool)
			c.Type = "iface"
			c.Doc = validDoc(pick([]string{"Holder", "Dec", "Emb", "Plain3", "slice"}), f.Next64())
			if f.Intn(6) == 0 && len(c.Doc) > 2 && c.Op != "path-get" {
				c.Doc = "!" + c.Doc[:1+f.Intn(len(c.Doc)-1)]
			}
		default: // utilities
			c.Op = pick([]string{"valid", "compact", "indent-util", "htmlescape"})
			c.Doc = validDoc(pick(decTypes), f.Next64())
			if f.Intn(4) == 0 && len(c.Doc) > 2 {
				c.Doc = "!" + c.Doc[:1+f.Intn(len(c.Doc)-1)]
			}
			if c.Op == "indent-util" {
				in := indents[f.Intn(3)]
				c.Prefix, c.Indent = in[0], in[1]
			}
		}
		pool = append(pool, c)
	}
	return pool
}

// ---- children: a fresh process executes a list of calls in one world and prints one outcome per line

func TestChild(t *testing.T) {
	if os.Getenv("VERIF_C11_CHILD") == "" {
		t.Skip("child mode only")
	}
	var calls []Call
	if err := stdjson.NewDecoder(os.Stdin).Decode(&calls); err != nil {
		t.Fatal(err)
	}
	w := newWorld()
	out := bufio.NewWriter(os.Stdout)
	for _, c := range calls {
		o := w.run(c)
		b, _ := stdjson.Marshal(o)
		out.WriteString("OUTCOME " + string(b) + "\n")
		out.Flush()
	}
}

func childEnv() []string {
	var env []string
	for _, e := range os.Environ() {
		if strings.HasPrefix(e, "VERIF_OUT=") || strings.HasPrefix(e, "VERIF_REPLAY=") || strings.HasPrefix(e, "VERIF_WITNESS=") {
			continue
		}
		env = append(env, e)
	}
	return append(env, "VERIF_C11_CHILD=1")
}

// runChild returns the outcomes the child produced (possibly fewer than calls, if it died) and a diagnostic.
func runChild(calls []Call) ([]Outcome, string) {
	in, _ := stdjson.Marshal(calls)
	ctx, cancel := context.WithTimeout(context.Background(), 120*time.Second)
	defer cancel()
	cmd := exec.CommandContext(ctx, os.Args[0], "-test.run", "^TestChild$", "-test.timeout", "100s")
	cmd.Env = childEnv()
	cmd.Stdin = bytes.NewReader(in)
	var stdout, stderr bytes.Buffer
	cmd.Stdout, cmd.Stderr = &stdout, &stderr
	err := cmd.Run()
	var outs []Outcome
	for _, line := range strings.Split(stdout.String(), "\n") {
		if strings.HasPrefix(line, "OUTCOME ") {
			var o Outcome
			if stdjson.Unmarshal([]byte(line[8:]), &o) == nil {
				outs = append(outs, o)
			}
		}
	}
	diag := ""
	if err != nil || len(outs) < len(calls) {
		diag = fmt.Sprintf("child: %v; %s", err, firstLines(stderr.String()+stdout.String(), 6))
		if ctx.Err() != nil {
			diag = "child timed out (120 s); " + diag
		}
	}
	return outs, diag
}

func firstLines(s string, n int) string {
	var keep []string
	for _, l := range strings.Split(s, "\n") {
		if strings.HasPrefix(l, "OUTCOME ") || strings.TrimSpace(l) == "" {
			continue
		}
		keep = append(keep, l)
		if len(keep) == n {
			break
		}
	}
	return strings.Join(keep, " | ")
}

type coldEntry struct {
	o      Outcome
	usable bool
	diag   string
}

func coldTable(pool []Call) []coldEntry {
	table := make([]coldEntry, len(pool))
	var wg sync.WaitGroup
	sem := make(chan struct{}, 6)
	for i := range pool {
		wg.Add(1)
		sem <- struct{}{}
		go func(i int) {
			defer wg.Done()
			defer func() { <-sem }()
			outs, diag := runChild(pool[i : i+1])
			if len(outs) == 1 && diag == "" {
				table[i] = coldEntry{o: outs[0], usable: true}
			} else {
				table[i] = coldEntry{diag: diag}
			}
		}(i)
	}
	wg.Wait()
	return table
}

type History struct {
	PoolSeed uint64 `json:"pool_seed"`
	PoolSize int    `json:"pool_size"`
	Seq      []int  `json:"seq"`
	Calls    []Call `json:"calls,omitempty"` // filled in failures for readability
}

func shares(a, b Call) bool {
	if a.Type != "" && a.Type == b.Type {
		return true
	}
	if a.Path != "" && a.Path == b.Path {
		return true
	}
	if a.Query != "" && a.Query == b.Query {
		return true
	}
	return a.Op == b.Op && (a.Op == "encoder" || a.Op == "decoder")
}

func classify(calls []Call) (nontrivial bool) {
	for i, a := range calls {
		for _, b := range calls[i+1:] {
			if a.Fails() && shares(a, b) {
				nontrivial = true
				rt.Label("failing call followed by a call sharing its type or handle")
				break
			}
		}
		if nontrivial {
			break
		}
	}
	opts := map[string]map[int]bool{}
	for _, c := range calls {
		if c.Type == "" {
			continue
		}
		if opts[c.Type] == nil {
			opts[c.Type] = map[int]bool{}
		}
		opts[c.Type][c.Opts] = true
		if len(opts[c.Type]) > 1 {
			nontrivial = true
			rt.Label("two option sets on one type")
			break
		}
	}
	return
}

func checkHistory(pool []Call, cold []coldEntry, seq []int, fail func(h History, format string, args ...any)) {
	calls := make([]Call, 0, len(seq))
	for _, i := range seq {
		if cold[i].usable {
			calls = append(calls, pool[i])
		}
	}
	if len(calls) == 0 {
		return
	}
	h := History{Seq: seq}
	rt.Journal("history", func() string { b, _ := stdjson.Marshal(h); return string(b) })
	outs, diag := runChild(calls)
	rt.Count("cases/histories", 1)
	rt.Count("calls", int64(len(calls)))
	k := 0
	for _, i := range seq {
		if !cold[i].usable {
			continue
		}
		if k >= len(outs) {
			h.Calls = calls[:k+1]
			fail(h, "the process died in call %d of the history (%+v); alone in a fresh process the call gives %s. %s", k, pool[i], cold[i].o, diag)
			return
		}
		if outs[k] != cold[i].o {
			h.Calls = calls[:k+1]
			fail(h, "call %d of the history (%+v) gives\n  %s\nbut as the first call of a fresh process it gives\n  %s", k, pool[i], outs[k], cold[i].o)
			return
		}
		k++
	}
	if classify(calls) {
		var sb strings.Builder
		for _, i := range seq {
			fmt.Fprintf(&sb, "%d,", i)
		}
		rt.NonTrivial(rt.Hash64(sb.String()))
	}
	for _, c := range calls {
		if c.Fails() {
			rt.Label("history contains a failing call")
			break
		}
	}
	if rt.WantSample("histories") {
		rt.Sample("histories", map[string]any{"seq": seq, "first_calls": calls[:min(3, len(calls))]})
	} else {
		rt.Sample("histories", nil)
	}
}

func poolParams() (uint64, int) {
	return rt.SubSeed("pool"), rt.N(260, 600)
}

func TestCheck(t *testing.T) {
	seed, size := poolParams()
	pool := buildPool(seed, size)
	cold := coldTable(pool)
	unusable := 0
	for i, e := range cold {
		if !e.usable {
			unusable++
			rt.Count("cold_call_died", 1)
			if unusable <= 3 {
				t.Logf("cold call %d (%+v) did not complete: %s", i, pool[i], e.diag)
			}
		}
	}
	rt.Count("pool_calls", int64(len(pool)))
	if unusable*4 > len(pool) {
		rt.Count("harness_error", 1)
		t.Fatalf("harness: %d of %d pool calls do not complete in a fresh process", unusable, len(pool))
	}
	gen := rapid.OneOf(
		rapid.SliceOfN(rapid.IntRange(0, len(pool)-1), 2, 40),
		rapid.SliceOfN(rapid.IntRange(0, len(pool)-1), 40, 300),
	)
	rt.Rapid(t, "histories", rt.PerShard(rt.N(16*100, 16*2500)), func(r *rapid.T) {
		seq := gen.Draw(r, "history")
		checkHistory(pool, cold, seq, func(h History, format string, args ...any) {
			h.PoolSeed, h.PoolSize = seed, size
			r.Fatalf("%s", rt.Fail(prop, "histories", h, format, args...))
		})
	})
}

func TestReplay(t *testing.T) {
	fl, err := rt.LoadReplay()
	if err != nil {
		t.Fatal(err)
	}
	var h History
	if err := stdjson.Unmarshal(bytes.TrimSpace(fl.Case), &h); err != nil {
		t.Fatal(err)
	}
	pool := buildPool(h.PoolSeed, h.PoolSize)
	// cold outcomes of the calls of this history only
	cold := make([]coldEntry, len(pool))
	for _, i := range h.Seq {
		if !cold[i].usable && cold[i].diag == "" {
			outs, diag := runChild(pool[i : i+1])
			if len(outs) == 1 && diag == "" {
				cold[i] = coldEntry{o: outs[0], usable: true}
			} else {
				cold[i] = coldEntry{diag: "died: " + diag}
			}
		}
	}
	checkHistory(pool, cold, h.Seq, func(h History, format string, args ...any) {
		t.Errorf(format, args...)
	})
}

func TestWitness(t *testing.T) {
	enc.RunWitness(t)
}
