package c11

import (
	"bytes"
	"context"
	stdjson "encoding/json"
	"fmt"
	"io"
	"reflect"
	"regexp"
	"sort"
	"strings"

	gojson "github.com/goccy/go-json"

	"verif/harness/corpus"
	"verif/harness/gen"
	"verif/harness/rt"
)

// Call is one self-contained call descriptor: everything the call depends on is in here.
type Call struct {
	Op     string `json:"op"`
	Type   string `json:"type,omitempty"`
	Fill   uint64 `json:"fill,omitempty"`
	Spec   string `json:"spec,omitempty"` // encode: "" | err | panic | cycle | deep | mapcycle
	Doc    string `json:"doc,omitempty"`
	Opts   int    `json:"opts,omitempty"` // 1 colorize, 2 unordered map, 4 no HTML escape, 8 no UTF-8 normalisation, 16 debug, 32 first-win (decode)
	Prefix string `json:"prefix,omitempty"`
	Indent string `json:"indent,omitempty"`
	Query  string `json:"query,omitempty"`
	Path   string `json:"path,omitempty"`
	Marker string `json:"marker,omitempty"`
}

type Outcome struct {
	Err   string `json:"err,omitempty"`
	Panic string `json:"panic,omitempty"`
	Out   string `json:"out,omitempty"`
}

func (o Outcome) String() string {
	return fmt.Sprintf("err=%q panic=%q out=%.400q", o.Err, o.Panic, o.Out)
}

func (c Call) Fails() bool {
	return c.Spec == "err" || c.Spec == "panic" || c.Spec == "cycle" || c.Spec == "mapcycle" || strings.HasPrefix(c.Doc, "!")
}

func err2s(err error) string {
	if err == nil {
		return ""
	}
	return err.Error()
}

var hexAddr = regexp.MustCompile(`0x[0-9a-fA-F]+`)

func maskErr(err error) string {
	if err == nil {
		return ""
	}
	return fmt.Sprintf("%T: %s", err, hexAddr.ReplaceAllString(err.Error(), "0xX"))
}

// world holds the reusable handles of one history (fresh in a cold run).
type world struct {
	encoders map[string]*encHandle
	decoders map[string]*decHandle
	queries  map[string]*gojson.FieldQuery
	paths    map[string]*gojson.Path
	nodes    []*Node
}

type encHandle struct {
	buf bytes.Buffer
	enc *gojson.Encoder
}

type decHandle struct {
	buf *bytes.Buffer
	dec *gojson.Decoder
	err error
}

func decodeWith(h *decHandle, w *world, c Call, dst reflect.Value) {
	target := dst.Interface()
	if c.Spec == "bad-dst" {
		target = dst.Elem().Interface() // not a pointer: the call must fail before it reads anything
	}
	if c.Marker != "" {
		h.err = h.dec.DecodeContext(w.ctx(c), target)
	} else {
		h.err = h.dec.DecodeWithOption(target, decOpts(c)...)
	}
}

func newWorld() *world {
	return &world{encoders: map[string]*encHandle{}, decoders: map[string]*decHandle{}, queries: map[string]*gojson.FieldQuery{}, paths: map[string]*gojson.Path{}}
}

type WrapF struct {
	V interface{}
	F Fail
	Z int
}

func (w *world) chainNodes() []*Node {
	if w.nodes == nil {
		w.nodes = make([]*Node, 1200)
		for i := range w.nodes {
			w.nodes[i] = &Node{V: i}
		}
		for i := 0; i+1 < len(w.nodes); i++ {
			w.nodes[i].Next = w.nodes[i+1]
		}
	}
	return w.nodes
}

func (w *world) value(c Call) (v interface{}, cleanup func()) {
	cleanup = func() {}
	switch c.Spec {
	case "cycle":
		n := w.chainNodes()
		n[len(n)-1].Next = n[0]
		return n[0], func() { n[len(n)-1].Next = nil }
	case "deep":
		return w.chainNodes()[0], cleanup
	case "mapcycle":
		m := map[string]interface{}{"a": 1}
		m["self"] = m
		return m, cleanup
	}
	t := typeTable[c.Type]
	val := corpus.NewFiller(c.Fill, 60).Fill(t)
	sanitize(val)
	var iv interface{} = val.Addr().Interface()
	if c.Fill%3 == 0 || t.Kind() == reflect.Map || t.Kind() == reflect.Slice {
		iv = val.Interface()
	}
	switch c.Spec {
	case "err", "panic":
		return WrapF{V: iv, F: Fail{Mode: c.Spec}, Z: 7}, cleanup
	}
	return iv, cleanup
}

// sanitize keeps generated values inside the domain where the outcome is a function of the value:
// marshaler modes never fail by accident, RawMessage/Number hold valid texts.
func sanitize(v reflect.Value) {
	switch v.Kind() {
	case reflect.Ptr, reflect.Interface:
		if !v.IsNil() {
			if v.Kind() == reflect.Interface {
				return
			}
			sanitize(v.Elem())
		}
	case reflect.Struct:
		switch x := v.Addr().Interface().(type) {
		case *Fail:
			x.Mode = "m" + fmt.Sprint(len(x.Mode))
			return
		case *TextFail:
			x.Mode = "t" + fmt.Sprint(len(x.Mode))
			return
		}
		for i := 0; i < v.NumField(); i++ {
			if v.Type().Field(i).PkgPath == "" {
				sanitize(v.Field(i))
			}
		}
	case reflect.Slice:
		if v.Type() == reflect.TypeOf(stdjson.RawMessage(nil)) {
			v.SetBytes([]byte(`{"raw":[1,2]}`))
			return
		}
		if v.Type().Elem().Kind() == reflect.Uint8 {
			return
		}
		for i := 0; i < v.Len(); i++ {
			sanitize(v.Index(i))
		}
	case reflect.Array:
		for i := 0; i < v.Len(); i++ {
			sanitize(v.Index(i))
		}
	case reflect.Map:
		for _, k := range v.MapKeys() {
			e := reflect.New(v.Type().Elem()).Elem()
			e.Set(v.MapIndex(k))
			sanitize(e)
			v.SetMapIndex(k, e)
		}
	}
}

func encOpts(c Call) []gojson.EncodeOptionFunc {
	var o []gojson.EncodeOptionFunc
	if c.Opts&1 != 0 {
		o = append(o, gojson.Colorize(gojson.DefaultColorScheme))
	}
	if c.Opts&2 != 0 {
		o = append(o, gojson.UnorderedMap())
	}
	if c.Opts&4 != 0 {
		o = append(o, gojson.DisableHTMLEscape())
	}
	if c.Opts&8 != 0 {
		o = append(o, gojson.DisableNormalizeUTF8())
	}
	if c.Opts&16 != 0 {
		o = append(o, gojson.DebugWith(io.Discard), gojson.Debug())
	}
	return o
}

func decOpts(c Call) []gojson.DecodeOptionFunc {
	if c.Opts&32 != 0 {
		return []gojson.DecodeOptionFunc{gojson.DecodeFieldPriorityFirstWin()}
	}
	return nil
}

func (w *world) ctx(c Call) context.Context {
	ctx := context.Background()
	if c.Marker != "" {
		ctx = context.WithValue(ctx, ctxKey{}, c.Marker)
	}
	if c.Query != "" {
		q := w.queries[c.Query]
		if q == nil {
			var err error
			q, err = gojson.FieldQueryString(c.Query).Build()
			if err != nil {
				panic("harness: bad query " + c.Query + ": " + err.Error())
			}
			w.queries[c.Query] = q
		}
		ctx = gojson.SetFieldQueryToContext(ctx, q)
	}
	return ctx
}

func canonUnordered(c Call, out []byte) string {
	if c.Opts&2 == 0 {
		return string(out)
	}
	var v interface{}
	d := stdjson.NewDecoder(bytes.NewReader(out))
	d.UseNumber()
	if err := d.Decode(&v); err != nil {
		return string(out)
	}
	b, _ := stdjson.Marshal(v)
	return "canon:" + string(b)
}

// run executes one call in the given world and renders its outcome.
func (w *world) run(c Call) (o Outcome) {
	defer func() {
		if r := recover(); r != nil {
			s := fmt.Sprint(r)
			if strings.HasPrefix(s, "harness:") {
				panic(r)
			}
			o = Outcome{Panic: hexAddr.ReplaceAllString(s, "0xX")}
		}
	}()
	docBytes := func() []byte { return []byte(strings.TrimPrefix(c.Doc, "!")) }
	switch c.Op {
	case "marshal", "indent", "opts", "context", "noescape", "encoder":
		v, cleanup := w.value(c)
		defer cleanup()
		var out []byte
		var err error
		switch c.Op {
		case "marshal":
			out, err = gojson.Marshal(v)
		case "noescape":
			out, err = gojson.MarshalNoEscape(v)
		case "indent":
			out, err = gojson.MarshalIndentWithOption(v, c.Prefix, c.Indent, encOpts(c)...)
		case "opts":
			out, err = gojson.MarshalWithOption(v, encOpts(c)...)
		case "context":
			out, err = gojson.MarshalContext(w.ctx(c), v, encOpts(c)...)
		case "encoder":
			key := fmt.Sprintf("%d|%s|%s", c.Opts, c.Prefix, c.Indent)
			h := w.encoders[key]
			if h == nil {
				h = &encHandle{}
				h.enc = gojson.NewEncoder(&h.buf)
				h.enc.SetIndent(c.Prefix, c.Indent)
				if c.Opts&4 != 0 {
					h.enc.SetEscapeHTML(false)
				}
				w.encoders[key] = h
			}
			h.buf.Reset()
			if c.Marker != "" {
				err = h.enc.EncodeContext(w.ctx(c), v, encOpts(c)...)
			} else {
				err = h.enc.EncodeWithOption(v, encOpts(c)...)
			}
			out = append([]byte(nil), h.buf.Bytes()...)
		}
		return Outcome{Err: maskErr(err), Out: canonUnordered(c, out)}
	case "unmarshal", "unmarshal-context", "unmarshal-noescape", "decoder", "path-unmarshal":
		t := typeTable[c.Type]
		dst := reflect.New(t)
		var err error
		switch c.Op {
		case "unmarshal":
			err = gojson.UnmarshalWithOption(docBytes(), dst.Interface(), decOpts(c)...)
		case "unmarshal-context":
			err = gojson.UnmarshalContext(w.ctx(c), docBytes(), dst.Interface(), decOpts(c)...)
		case "unmarshal-noescape":
			err = gojson.UnmarshalNoEscape(docBytes(), dst.Interface(), decOpts(c)...)
		case "decoder":
			key := "" // one Decoder for every decoder call of the history, whatever its options
			h := w.decoders[key]
			if h == nil {
				h = &decHandle{buf: &bytes.Buffer{}}
				h.dec = gojson.NewDecoder(h.buf)
				w.decoders[key] = h
			}
			if c.Spec != "bad-dst" {
				h.buf.Write(docBytes())
				h.buf.WriteByte('\n')
			}
			func() {
				defer func() {
					if r := recover(); r != nil {
						delete(w.decoders, key) // the stream stands in the middle of a document
						panic(r)
					}
				}()
				decodeWith(h, w, c, dst)
			}()
			err = h.err
			topLevelRefusal := (c.Type == "UFail" || c.Type == "TU") && strings.Contains(err2s(err), "refuses")
			if err != nil && c.Spec != "bad-dst" && !topLevelRefusal {
				// a stream cannot be resynchronised after a syntax or type error in the middle of a document: the
				// next call gets a new Decoder.  Calls that fail before reading (invalid destination) or after
				// the whole top-level value was handed to an unmarshaler leave the stream in step and keep it.
				delete(w.decoders, key)
			}
		case "path-unmarshal":
			p := w.path(c.Path)
			err = p.Unmarshal(docBytes(), dst.Interface(), decOpts(c)...)
		}
		return Outcome{Err: maskErr(err), Out: gen.Render(dst.Elem())}
	case "path-extract":
		p := w.path(c.Path)
		parts, err := p.Extract(docBytes())
		var sb strings.Builder
		for _, x := range parts {
			sb.Write(x)
			sb.WriteByte('|')
		}
		return Outcome{Err: maskErr(err), Out: sb.String()}
	case "path-get":
		p := w.path(c.Path)
		var src, dst interface{}
		if err := stdjson.Unmarshal(docBytes(), &src); err != nil {
			return Outcome{Err: "harness-skip"}
		}
		err := p.Get(src, &dst)
		if l, ok := dst.([]interface{}); ok && strings.Contains(c.Path, "..") {
			// recursive descent over Go maps visits members in map order: compare as a multiset
			parts := make([]string, len(l))
			for i := range l {
				parts[i] = gen.Render(reflect.ValueOf(&l[i]).Elem())
			}
			sort.Strings(parts)
			return Outcome{Err: maskErr(err), Out: "multiset:" + strings.Join(parts, " ")}
		}
		return Outcome{Err: maskErr(err), Out: gen.Render(reflect.ValueOf(&dst).Elem())}
	case "valid":
		return Outcome{Out: fmt.Sprint(gojson.Valid(docBytes()))}
	case "compact":
		var b bytes.Buffer
		b.WriteString("pre")
		err := gojson.Compact(&b, docBytes())
		return Outcome{Err: maskErr(err), Out: b.String()}
	case "indent-util":
		var b bytes.Buffer
		err := gojson.Indent(&b, docBytes(), c.Prefix, c.Indent)
		return Outcome{Err: maskErr(err), Out: b.String()}
	case "htmlescape":
		var b bytes.Buffer
		gojson.HTMLEscape(&b, docBytes())
		return Outcome{Out: b.String()}
	}
	panic("harness: unknown op " + c.Op)
}

func (w *world) path(s string) *gojson.Path {
	p := w.paths[s]
	if p == nil {
		var err error
		p, err = gojson.CreatePath(s)
		if err != nil {
			panic("harness: bad path " + s + ": " + err.Error())
		}
		w.paths[s] = p
	}
	return p
}

var _ = rt.Count
