package c03

import (
	"bytes"
	"context"
	stdjson "encoding/json"
	"fmt"
	"os"
	"reflect"
	"testing"
	"unicode/utf8"

	gojson "github.com/goccy/go-json"
	"pgregory.net/rapid"

	_ "verif/harness/dec"
	"verif/harness/enc"
	"verif/harness/gen"
	"verif/harness/known"
	"verif/harness/ref"
	"verif/harness/rt"
)

const prop = "C03"

// findings specific to this property
const (
	kfFloat32   = "KF-C03-float32-nonfinite-emitted"
	kfLenient   = "KF-C03-lenient-marshaler-output"
	kfNoNormUTF = "KF-C03-invalid-utf8-marshaler-output"
)

func TestMain(m *testing.M) {
	code := m.Run()
	rt.Flush()
	os.Exit(code)
}

type Case struct {
	enc.Case
	Options []string `json:"options"` // subset of nohtml, nonorm, unordered
	Hostile []string `json:"hostile"` // hostile value classes enabled: f32 f64 number lenient broken
}

func typeCfg() gen.TypeCfg {
	c := gen.DefaultTypeCfg()
	c.Leaves = append(append(append([]string{}, gen.PlainLeaves...), gen.MarshalerLeaves...), "HostMJ", "HostMJ", "HostMT", "EmbA", "KeyMT")
	c.Prims = append(append([]string{}, gen.PrimNames...), "float32", "float64", "number", "float32")
	c.KeyKinds = append(append([]string{}, gen.DefaultKeyKinds...), "leaf:KeyMT", "leaf:HostMT")
	return c
}

var hostType = reflect.TypeOf(gen.HostMJ{})
var hostTextType = reflect.TypeOf(gen.HostMT{})

func valCfg(hostile []string, ascii bool) gen.ValCfg {
	has := func(s string) bool {
		for _, h := range hostile {
			if h == s {
				return true
			}
		}
		return false
	}
	c := gen.ValCfg{HostileF32: has("f32"), HostileF64: has("f64"), HostileNumber: has("number"), ASCII: ascii}
	lenient, broken, badutf := has("lenient"), has("broken"), has("badutf8")
	c.Custom = map[reflect.Type]func(gen.Src, gen.ValCfg) reflect.Value{
		hostType: func(s gen.Src, _ gen.ValCfg) reflect.Value {
			k, i := s.Intn(6), s.Intn(64) // always drawn
			out := gen.HostValid[i%len(gen.HostValid)]
			switch {
			case k == 0 && lenient:
				out = gen.HostLenient[i%len(gen.HostLenient)]
			case k == 1 && broken:
				out = gen.HostBroken[i%len(gen.HostBroken)]
			case k == 2 && broken:
				out = "!err"
			case k == 3 && badutf:
				out = gen.HostBadUTF8[i%len(gen.HostBadUTF8)]
			}
			if ascii && !isASCII(out) {
				out = `"ascii"`
			}
			return reflect.ValueOf(gen.HostMJ{Out: out})
		},
		hostTextType: func(s gen.Src, cc gen.ValCfg) reflect.Value {
			k := s.Intn(8)
			out := gen.StringValueC(s, cc)
			if k == 0 && broken {
				out = "!err"
			}
			return reflect.ValueOf(gen.HostMT{Out: out})
		},
	}
	return known.EncValCfg(c)
}

func isASCII(s string) bool {
	for i := 0; i < len(s); i++ {
		if s[i] >= 0x80 {
			return false
		}
	}
	return true
}

func contains(l []string, s string) bool {
	for _, x := range l {
		if x == s {
			return true
		}
	}
	return false
}

func TestCheck(t *testing.T) {
	n := rt.PerShard(rt.N(200000, 3000000))
	rt.Rapid(t, "wellformed", n, func(t *rapid.T) {
		spec := gen.GenType(t, typeCfg())
		known.RepairEncSpec(spec)
		typ := enc.SafeType(spec)
		if typ == nil {
			t.Skip("reflect refuses the shape")
		}
		c := &Case{}
		for _, h := range []string{"f32", "f64", "number", "lenient", "broken", "badutf8"} {
			if rapid.IntRange(0, 2).Draw(t, "hostile-"+h) > 0 {
				c.Hostile = append(c.Hostile, h)
			}
		}
		for _, o := range []string{"nohtml", "nonorm", "unordered"} {
			if rapid.IntRange(0, 3).Draw(t, "opt-"+o) == 0 {
				c.Options = append(c.Options, o)
			}
		}
		v, rec := gen.Draw(t, typ, valCfg(c.Hostile, contains(c.Options, "nonorm")))
		c.Spec, c.Type, c.Recipe, c.Active = spec, spec.String(), rec, rt.ActiveList()
		c.Reach = known.EncReach(spec, rapid.SampledFrom(enc.Reaches).Draw(t, "reach"))
		c.Entry = rapid.SampledFrom([]string{"marshal", "indent", "context", "context-query", "noescape", "encoder", "encoder-indent"}).Draw(t, "entry")
		if c.Entry == "indent" || c.Entry == "encoder-indent" {
			c.Prefix = rapid.SampledFrom([]string{"", " ", "\t"}).Draw(t, "prefix")
			c.Indent = rapid.SampledFrom([]string{"  ", "\t", ""}).Draw(t, "indent")
		}
		if msg := runCase(c, v, typ); msg != "" {
			t.Fatalf("%s", msg)
		}
	})
}

func goOpts(c *Case) []gojson.EncodeOptionFunc {
	var o []gojson.EncodeOptionFunc
	if contains(c.Options, "nohtml") {
		o = append(o, gojson.DisableHTMLEscape())
	}
	if contains(c.Options, "nonorm") {
		o = append(o, gojson.DisableNormalizeUTF8())
	}
	if contains(c.Options, "unordered") {
		o = append(o, gojson.UnorderedMap())
	}
	return o
}

func goEncode(c *Case, val interface{}) (out []byte, err error, pv any) {
	defer func() {
		if r := recover(); r != nil {
			pv = fmt.Sprint(r)
		}
	}()
	o := goOpts(c)
	switch c.Entry {
	case "marshal":
		out, err = gojson.MarshalWithOption(val, o...)
	case "indent":
		out, err = gojson.MarshalIndentWithOption(val, c.Prefix, c.Indent, o...)
	case "context":
		out, err = gojson.MarshalContext(context.Background(), val, o...)
	case "context-query":
		q, qerr := gojson.BuildFieldQuery("A", "B", "X", "k")
		if qerr != nil {
			panic(qerr)
		}
		out, err = gojson.MarshalContext(gojson.SetFieldQueryToContext(context.Background(), q), val, o...)
	case "noescape":
		out, err = gojson.MarshalNoEscape(val)
	default:
		var buf bytes.Buffer
		e := gojson.NewEncoder(&buf)
		if c.Entry == "encoder-indent" {
			e.SetIndent(c.Prefix, c.Indent)
		}
		err = e.EncodeWithOption(val, o...)
		out = buf.Bytes()
		if err == nil {
			if !bytes.HasSuffix(out, []byte("\n")) {
				return out, nil, "Encoder output lacks the trailing newline"
			}
			out = out[:len(out)-1]
		}
	}
	return
}

// judge returns "" if the case satisfies the property.
func judge(c *Case, val interface{}) (string, []byte) {
	_, werr := stdjson.Marshal(val)
	got, gerr, pv := goEncode(c, val)
	switch {
	case pv != nil:
		return fmt.Sprintf("panic: %v", pv), got
	case gerr != nil:
		return "", got
	case werr != nil && c.Entry != "context-query": // a field query may legitimately filter the unrepresentable part out
		return fmt.Sprintf("encoding/json rejects the value (%v) but go-json reported success with output %q", werr, clip(got)), got
	}
	if !ref.Valid(got) || bytes.HasPrefix(got, []byte(" ")) {
		return fmt.Sprintf("success but the output is not exactly one well-formed JSON text: %q", clip(got)), got
	}
	if c.Entry != "indent" && c.Entry != "encoder-indent" {
		if _, end, _ := ref.Scan(got, ref.Relax{}, false); end != len(got) {
			return fmt.Sprintf("output has trailing bytes after the value: %q", clip(got)), got
		}
	}
	if !contains(c.Options, "nonorm") && !utf8.Valid(got) {
		return fmt.Sprintf("output is not valid UTF-8 although normalisation is on: %q", clip(got)), got
	}
	return "", got
}

func runCase(c *Case, v reflect.Value, typ reflect.Type) string {
	const sub = "wellformed"
	val := enc.Wrap(v, c.Reach)
	rt.Journal(sub, func() string { b, _ := stdjson.Marshal(c); return string(b) })
	fail, got := judge(c, val)
	rt.Count("cases/"+sub, 1)
	for _, h := range c.Hostile {
		rt.Label("hostile=" + h)
	}
	for _, o := range c.Options {
		rt.Label("opt=" + o)
	}
	rt.Label("entry=" + c.Entry)
	_, werr := stdjson.Marshal(val)
	if werr != nil {
		rt.Label("std-error")
	} else {
		rt.Label("std-success")
	}
	if len(c.Hostile) > 0 || c.Spec.Has(func(n *gen.TypeSpec) bool { return len(n.K) > 5 && n.K[:5] == "leaf:" }) || ref.Depth(got) >= 2 {
		rt.NonTrivial(rt.Hash64(c.Type, fmt.Sprint(c.Recipe), c.Reach, c.Entry, fmt.Sprint(c.Options), fmt.Sprint(c.Hostile)))
	}
	if rt.WantSample(sub) {
		rt.Sample(sub, map[string]any{"type": c.Type, "entry": c.Entry, "options": c.Options, "hostile": c.Hostile, "output": clip(got)})
	} else {
		rt.Sample(sub, nil)
	}
	if fail == "" {
		return ""
	}
	// delta attribution: a failure is explained by open findings iff the case contains their
	// triggers and the same case without (only) those triggers passes.
	type trig struct{ id, class string }
	var removed []string
	keep := append([]string{}, c.Hostile...)
	for _, tr := range []trig{{kfFloat32, "f32"}, {kfLenient, "lenient"}, {kfNoNormUTF, "badutf8"}} {
		if rt.Active(tr.id) && contains(keep, tr.class) {
			keep = without(keep, tr.class)
			removed = append(removed, tr.id)
		}
	}
	if len(removed) > 0 {
		c2 := *c
		c2.Hostile = keep
		v2 := gen.Rebuild(typ, c.Recipe, valCfg(keep, contains(c.Options, "nonorm")))
		if f2, _ := judge(&c2, enc.Wrap(v2, c.Reach)); f2 == "" {
			for _, id := range removed {
				rt.KnownHit(id)
			}
			return ""
		}
	}
	c.Got = clip(got)
	return rt.Fail(prop, sub, c, "%s\n type: %s\n reach=%s entry=%s options=%v hostile=%v", fail, c.Type, c.Reach, c.Entry, c.Options, c.Hostile)
}

func without(l []string, s string) []string {
	var o []string
	for _, x := range l {
		if x != s {
			o = append(o, x)
		}
	}
	return o
}

func clip(b []byte) string {
	if len(b) > 500 {
		return string(b[:500]) + "…"
	}
	return string(b)
}

func TestReplay(t *testing.T) {
	f, err := rt.LoadReplay()
	if err != nil {
		t.Fatal(err)
	}
	var c Case
	if err := stdjson.Unmarshal(f.Case, &c); err != nil {
		t.Fatal(err)
	}
	rt.SetActive(c.Active)
	typ := enc.SafeType(c.Spec)
	if typ == nil {
		t.Fatal("cannot realise type")
	}
	v := gen.Rebuild(typ, c.Recipe, valCfg(c.Hostile, contains(c.Options, "nonorm")))
	rt.SetActive(nil) // a replay never attributes to findings
	if msg := runCase(&c, v, typ); msg != "" {
		t.Fatal(msg)
	}
}

func TestWitness(t *testing.T) {
	bad := func(v interface{}) (bool, string) {
		out, err := gojson.Marshal(v)
		_, werr := stdjson.Marshal(v)
		return err == nil && werr != nil, fmt.Sprintf("go-json output %q err=%v; encoding/json err=%v", out, err, werr)
	}
	known.Witnesses[kfFloat32] = func() (bool, string) { return bad([]float32{float32(inf())}) }
	known.Witnesses[kfLenient] = func() (bool, string) { return bad(gen.HostMJ{Out: "\"a\x01b\""}) }
	known.Witnesses[kfNoNormUTF] = func() (bool, string) {
		out, err := gojson.Marshal(gen.HostMJ{Out: "\"\xff\""})
		return err == nil && !utf8.Valid(out), fmt.Sprintf("output %q err=%v", out, err)
	}
	known.Witnesses["FX-C03-ill-formed-number"] = func() (bool, string) { return bad(stdjson.Number("1e")) }
	enc.RunWitness(t)
}

func inf() float64 {
	x := 1e308
	return x * 10
}
