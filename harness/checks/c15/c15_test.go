package c15

import (
	stdjson "encoding/json"
	"fmt"
	"os"
	"reflect"
	"sort"
	"strings"
	"testing"
	"unicode/utf8"

	gojson "github.com/goccy/go-json"

	_ "verif/harness/dec"
	"verif/harness/enc"
	"verif/harness/gen"
	"verif/harness/jsongen"
	"verif/harness/known"
	"verif/harness/rt"
)

const prop = "C15"

func TestMain(m *testing.M) {
	code := m.Run()
	rt.Flush()
	os.Exit(code)
}

var alpha = []string{"A", "a", "B", "b", "1", "_", "é", "É", "<", "K"} // K = U+212A KELVIN SIGN (folds to k)

func init() { alpha[9] = string(rune(0x212A)) }

// ---- struct shapes

type shape struct {
	Names []string `json:"names"` // JSON names (tags) of the int fields F0..Fn-1, in order
	Embed int      `json:"embed"` // 0 = flat; k>0: the last k names live in an embedded struct (depth 1); see build
	Deep  bool     `json:"deep"`  // embedded part nested one level deeper
}

func (s shape) String() string { return fmt.Sprintf("%q embed=%d deep=%v", s.Names, s.Embed, s.Deep) }

var intT = reflect.TypeOf(0)

func tag(name string) reflect.StructTag { return reflect.StructTag(fmt.Sprintf(`json:%q`, name)) }

// build realises the shape; the returned setters address field i (through embedded structs).
func (s shape) build() (typ reflect.Type, ok bool) {
	defer func() {
		if recover() != nil {
			ok = false
		}
	}()
	n := len(s.Names)
	flat := n - s.Embed
	var fs []reflect.StructField
	for i := 0; i < flat; i++ {
		fs = append(fs, reflect.StructField{Name: fmt.Sprintf("F%d", i), Type: intT, Tag: tag(s.Names[i])})
	}
	if s.Embed > 0 {
		var es []reflect.StructField
		for i := flat; i < n; i++ {
			es = append(es, reflect.StructField{Name: fmt.Sprintf("F%d", i), Type: intT, Tag: tag(s.Names[i])})
		}
		et := reflect.StructOf(es)
		if s.Deep {
			et = reflect.StructOf([]reflect.StructField{{Name: "Inner", Type: et, Anonymous: true}})
		}
		fs = append(fs, reflect.StructField{Name: "Emb", Type: et, Anonymous: true})
	}
	return reflect.StructOf(fs), true
}

// markers reads the values of all int fields (depth-first) so that two decoded structs can be compared
func markers(v reflect.Value, out *[]int64) {
	for i := 0; i < v.NumField(); i++ {
		f := v.Field(i)
		if f.Kind() == reflect.Struct {
			markers(f, out)
		} else {
			*out = append(*out, f.Int())
		}
	}
}

// ---- key spellings

func spellings(key string) []string {
	raw, _ := stdjson.Marshal(key)
	out := []string{string(raw)}
	if !utf8.ValidString(key) || key == "" {
		return out
	}
	var full, part, upper strings.Builder
	full.WriteByte('"')
	part.WriteByte('"')
	upper.WriteByte('"')
	for i, r := range key {
		esc := fmt.Sprintf("%cu%04x", 0x5c, r)
		full.WriteString(esc)
		upper.WriteString(fmt.Sprintf("%cu%04X", 0x5c, r))
		if i == 0 {
			part.WriteString(esc)
		} else {
			part.WriteString(jsongen.Spell(nil, string(r), jsongen.Cfg{})[1 : len(jsongen.Spell(nil, string(r), jsongen.Cfg{}))-1])
		}
	}
	full.WriteByte('"')
	part.WriteByte('"')
	upper.WriteByte('"')
	return append(out, full.String(), part.String(), upper.String())
}

// ---- the comparison

type bucket struct {
	n    int
	c    map[string]any
	msg  string
	size int
}

type collector struct {
	b map[string]*bucket
}

func (c *collector) add(class string, cs map[string]any, msg string) {
	k := c.b[class]
	if k == nil {
		k = &bucket{size: 1 << 30}
		c.b[class] = k
	}
	k.n++
	sz := len(fmt.Sprint(cs))
	if sz < k.size {
		k.size, k.c, k.msg = sz, cs, msg
	}
}

func (c *collector) report(t *testing.T, sub string) {
	keys := make([]string, 0, len(c.b))
	for k := range c.b {
		keys = append(keys, k)
	}
	sort.Strings(keys)
	for _, k := range keys {
		b := c.b[k]
		t.Error(rt.Fail(prop, sub+"/"+k, b.c, "%s: %d cases, smallest: %s", k, b.n, b.msg))
	}
}

// classify the matcher the struct uses and the relation of the key to the names
func shapeClass(s shape) string {
	ascii := true
	lower := map[string]int{}
	for _, n := range s.Names {
		for i := 0; i < len(n); i++ {
			if n[i] >= 0x80 {
				ascii = false
			}
		}
		lower[strings.ToLower(n)]++
	}
	collide := false
	for _, c := range lower {
		if c > 1 {
			collide = true
		}
	}
	switch {
	case s.Embed > 0:
		return "embedded"
	case collide:
		return "case-colliding-names"
	case !ascii:
		return "non-ascii-names"
	case len(s.Names) > 16:
		return "more-than-16-fields"
	case len(s.Names) > 8:
		return "9-16-fields"
	}
	return "1-8-fields"
}

func keyClass(s shape, key string) string {
	exact, fold := false, false
	for _, n := range s.Names {
		if n == key {
			exact = true
		} else if strings.EqualFold(n, key) {
			fold = true
		}
	}
	switch {
	case exact && fold:
		return "exact+casevariant"
	case exact:
		return "exact"
	case fold:
		return "casevariant"
	}
	return "other"
}

func checkOne(c *collector, sub string, s shape, typ reflect.Type, doc string, keyDesc string) {
	a, b := reflect.New(typ), reflect.New(typ)
	werr := stdjson.Unmarshal([]byte(doc), a.Interface())
	rt.Journal(sub, func() string { x, _ := stdjson.Marshal(map[string]any{"shape": s, "doc": doc}); return string(x) })
	for _, mode := range []string{"buffer", "stream", "stream-1byte"} {
		b = reflect.New(typ)
		var gerr error
		pv := rt.Guard(func() {
			switch mode {
			case "buffer":
				gerr = gojson.Unmarshal([]byte(doc), b.Interface())
			case "stream":
				gerr = gojson.NewDecoder(strings.NewReader(doc)).Decode(b.Interface())
			default:
				p := make([]int, len(doc))
				for i := range p {
					p[i] = 1
				}
				gerr = gojson.NewDecoder(jsongen.NewChunkReader([]byte(doc), p)).Decode(b.Interface())
			}
		})
		rt.Count("cases/"+sub, 1)
		var wm, gm []int64
		markers(a.Elem(), &wm)
		markers(b.Elem(), &gm)
		if pv == nil && (werr == nil) == (gerr == nil) && (werr != nil || reflect.DeepEqual(wm, gm)) {
			continue
		}
		cls := shapeClass(s) + "/" + keyDesc + "/" + mode
		if id := expected(s, keyDesc, mode); id != "" && rt.Active(id) {
			rt.KnownHit(id)
			continue
		}
		c.add(cls, map[string]any{"shape": s, "doc": doc, "mode": mode},
			fmt.Sprintf("names %q doc %s (%s): encoding/json fields=%v err=%v, go-json fields=%v err=%v panic=%v", s.Names, doc, mode, wm, werr, gm, gerr, pv))
	}
}

// known findings (selectors over shape class x key class x mode)
const (
	kfFold     = "KF-C15-case-insensitive-match-outside-bitmap"
	kfUnicode  = "KF-C15-unicode-case-folding"
	kfEmbedded = "KF-DEC-field-name-conflict"
)

func expected(s shape, keyDesc, mode string) string {
	return ""
}

// encode side: member names and order equal encoding/json's
func checkEncode(c *collector, s shape, typ reflect.Type) {
	v := reflect.New(typ).Elem()
	k := int64(1)
	var set func(v reflect.Value)
	set = func(v reflect.Value) {
		for i := 0; i < v.NumField(); i++ {
			if v.Field(i).Kind() == reflect.Struct {
				set(v.Field(i))
			} else {
				v.Field(i).SetInt(k)
				k++
			}
		}
	}
	set(v)
	want, werr := stdjson.Marshal(v.Interface())
	var got []byte
	var gerr error
	pv := rt.Guard(func() { got, gerr = gojson.Marshal(v.Interface()) })
	rt.Count("cases/encode", 1)
	if pv != nil || (werr == nil) != (gerr == nil) || string(want) != string(got) {
		if s.Embed > 0 && rt.Active("KF-ENC-embedded-name-conflict") {
			rt.KnownHit("KF-ENC-embedded-name-conflict")
			return
		}
		c.add("encode/"+shapeClass(s), map[string]any{"shape": s}, fmt.Sprintf("names %q embed=%d deep=%v: encoding/json %s err=%v, go-json %s err=%v panic=%v", s.Names, s.Embed, s.Deep, want, werr, got, gerr, pv))
	}
}

// candidate keys for a shape: every name, each name with one byte changed/added/removed, case variants,
// and all strings of length <= maxKey over the alphabet
func keysFor(s shape, all []string) []string {
	seen := map[string]bool{}
	var out []string
	add := func(k string) {
		if !seen[k] && utf8.ValidString(k) {
			seen[k] = true
			out = append(out, k)
		}
	}
	for _, n := range s.Names {
		add(n)
		add(strings.ToUpper(n))
		add(strings.ToLower(n))
		add(n + "a")
		add(n + "A")
		if len(n) > 1 {
			add(n[:len(n)-1])
			add(n[1:])
		}
		rs := []rune(n)
		for i := range rs {
			for _, a := range []string{"a", "A", "_"} {
				m := append([]rune{}, rs...)
				m[i] = []rune(a)[0]
				add(string(m))
			}
			sw := append([]rune{}, rs...)
			if up := strings.ToUpper(string(rs[i])); up != string(rs[i]) {
				sw[i] = []rune(up)[0]
			} else {
				sw[i] = []rune(strings.ToLower(string(rs[i])))[0]
			}
			add(string(sw))
		}
	}
	for _, k := range all {
		add(k)
	}
	return out
}

func words(maxLen int) []string {
	out := []string{""}
	frontier := []string{""}
	for l := 1; l <= maxLen; l++ {
		var next []string
		for _, p := range frontier {
			for _, a := range alpha {
				next = append(next, p+a)
			}
		}
		out = append(out, next...)
		frontier = next
	}
	return out
}

func runShape(c *collector, sub string, s shape, allKeys []string, spell bool) int {
	typ, ok := s.build()
	if !ok {
		return 0
	}
	n := 0
	checkEncode(c, s, typ)
	for _, key := range keysFor(s, allKeys) {
		kc := keyClass(s, key)
		sp := spellings(key)
		if !spell {
			sp = sp[:1]
		}
		for si, lit := range sp {
			desc := kc
			if si > 0 {
				desc += "+escaped"
			}
			checkOne(c, sub, s, typ, "{"+lit+":7}", desc)
			n++
		}
		if kc != "other" {
			// duplicates in both orders: last one wins
			raw := sp[0]
			for _, other := range s.Names {
				o, _ := stdjson.Marshal(other)
				checkOne(c, sub, s, typ, "{"+raw+":7,"+string(o)+":8}", kc+"+dup")
				checkOne(c, sub, s, typ, "{"+string(o)+":8,"+raw+":7}", kc+"+dup")
				n += 2
			}
		}
	}
	return n
}

func TestCheck(t *testing.T) {
	shard, nsh := rt.E.Shard, rt.E.NShards
	c := &collector{b: map[string]*bucket{}}
	names2 := words(2)[1:] // names of length 1..2
	keyLen := 2
	if rt.Thorough() {
		keyLen = 3
	}
	allKeys := words(keyLen)
	total := 0
	idx := 0
	take := func() bool { idx++; return (idx-1)%nsh == shard }
	// (a) all sets of 1 and 2 names of length <= 2 (thorough: also 3 names from a reduced pool), flat and embedded
	for i, a := range names2 {
		if take() {
			total += runShape(c, "small", shape{Names: []string{a}}, allKeys, true)
		}
		for j, b := range names2 {
			if j <= i {
				continue
			}
			if !rt.Thorough() && (i*31+j)%7 != 0 {
				continue
			}
			if take() {
				total += runShape(c, "small", shape{Names: []string{a, b}}, allKeys[:len(alpha)*len(alpha)+len(alpha)+1], true)
				total += runShape(c, "small", shape{Names: []string{a, b}, Embed: 1}, nil, false)
				total += runShape(c, "small", shape{Names: []string{b, a}, Embed: 1, Deep: true}, nil, false)
			}
		}
	}
	rt.NonTrivialDistinct(int64(total))
	// (b) wide shapes: 8, 9, 16, 17 names, long names, shared prefixes, case-colliding names
	mk := func(n int, f func(i int) string) []string {
		out := make([]string, n)
		for i := range out {
			out[i] = f(i)
		}
		return out
	}
	wide := []shape{}
	for _, n := range []int{7, 8, 9, 15, 16, 17, 20} {
		wide = append(wide,
			shape{Names: mk(n, func(i int) string { return fmt.Sprintf("f%02d", i) })},
			shape{Names: mk(n, func(i int) string { return fmt.Sprintf("Field%c", 'A'+i) })},
			shape{Names: mk(n, func(i int) string { return strings.Repeat("ab", i+1) })}, // shared prefixes
			shape{Names: mk(n, func(i int) string { return fmt.Sprintf("%c%c", 'A'+i, 'a'+i) })},
			shape{Names: mk(n, func(i int) string { return fmt.Sprintf("k%d", i) }), Embed: n / 2},
			shape{Names: mk(n, func(i int) string { return fmt.Sprintf("k%d", i) }), Embed: 2, Deep: true},
		)
	}
	for _, l := range []int{63, 64, 65, 130} {
		wide = append(wide, shape{Names: []string{strings.Repeat("x", l), strings.Repeat("x", l-1) + "y", "z"}})
	}
	wide = append(wide, shape{Names: []string{"Ab", "AB", "ab"}}, shape{Names: []string{"Ab", "AB"}}, shape{Names: []string{"a", "A"}},
		shape{Names: []string{"é", "É"}}, shape{Names: []string{"k", alpha[9]}}, shape{Names: []string{"name", "Name", "NAME", "nAmE"}},
		shape{Names: []string{"a<b", "a>b", "a&b"}}, shape{Names: []string{"x", "x"}}, shape{Names: []string{"x", "y", "x"}, Embed: 1},
		shape{Names: []string{"x", "y", "x"}, Embed: 1, Deep: true}, shape{Names: []string{"x", "x", "x"}, Embed: 2}, shape{Names: []string{"a", "b", "a", "b"}, Embed: 2, Deep: true})
	wtotal := 0
	for _, s := range wide {
		if take() {
			wtotal += runShape(c, "wide", s, allKeys[:len(alpha)+1], true)
		}
	}
	rt.NonTrivialDistinct(int64(wtotal))
	rt.Sample("small", map[string]any{"documents": total, "alphabet": alpha})
	rt.Sample("wide", map[string]any{"documents": wtotal, "shapes": len(wide)})
	rt.Exhaustive(fmt.Sprintf("name sets of 1 name (all) and 2 names (%s) of length <= 2 over %d letters x keys of length <= %d + one-edit neighbours of each name x 4 spellings x 3 modes", map[bool]string{true: "all", false: "every 7th"}[rt.Thorough()], len(alpha), keyLen))
	// (c) dominance rules: all combinations of 2 (thorough: 3) fields over (Go name, tag, depth) x value/pointer embedding
	ctotal := 0
	nf := 2
	for n := 2; n <= 3; n++ {
		if n == 3 && !rt.Thorough() {
			break
		}
		nf = n
		conflictShapes(n, func(cs cshape) {
			if take() {
				ctotal += runConflict(c, cs)
			}
		})
	}
	rt.NonTrivialDistinct(int64(ctotal))
	rt.Sample("conflicts", map[string]any{"cases": ctotal, "max_fields": nf})
	c.report(t, "keys")
}

// ---- conflicts: dominance rules over (Go name, tag, embedding depth)

type cfield struct {
	Go    string `json:"go"`
	Tag   string `json:"tag"` // "" = untagged
	Depth int    `json:"depth"`
}

type cshape struct {
	Fields []cfield `json:"cfields"`
	Ptr    bool     `json:"ptr"` // embedded structs are embedded by pointer
}

func (s cshape) build() (typ reflect.Type, ok bool) {
	defer func() {
		if recover() != nil {
			ok = false
		}
	}()
	var at func(depth int) (reflect.Type, bool)
	at = func(depth int) (reflect.Type, bool) {
		var fs []reflect.StructField
		deeper := false
		for i, f := range s.Fields {
			if f.Depth == depth {
				sf := reflect.StructField{Name: fmt.Sprintf("%s%d", f.Go, i), Type: intT}
				if f.Tag != "" {
					sf.Tag = tag(f.Tag)
				} else {
					sf.Name = f.Go // untagged: the Go name is the JSON name, so it cannot be made unique
				}
				fs = append(fs, sf)
			}
			if f.Depth > depth {
				deeper = true
			}
		}
		if deeper {
			inner, _ := at(depth + 1)
			if s.Ptr {
				inner = reflect.PointerTo(inner)
			}
			fs = append(fs, reflect.StructField{Name: fmt.Sprintf("E%d", depth+1), Type: inner, Anonymous: true})
		}
		return reflect.StructOf(fs), true
	}
	return at(0)
}

// sharedName: selector of KF-DEC-field-name-conflict as far as this check needs it: two fields at the
// same depth with the same JSON name, one named by its tag and one by its Go name.
func (s cshape) sharedName() bool {
	for i := range s.Fields {
		for j := range s.Fields {
			a, b := s.Fields[i], s.Fields[j]
			if i != j && a.Depth == b.Depth && a.Tag == "" && b.Tag != "" && a.Go == b.Tag {
				return true
			}
		}
	}
	return false
}

func conflictMarkers(v reflect.Value, out *[]int64) {
	for v.Kind() == reflect.Ptr {
		if v.IsNil() {
			*out = append(*out, -1)
			return
		}
		v = v.Elem()
	}
	for i := 0; i < v.NumField(); i++ {
		f := v.Field(i)
		if f.Kind() == reflect.Struct || f.Kind() == reflect.Ptr {
			conflictMarkers(f, out)
		} else {
			*out = append(*out, f.Int())
		}
	}
}

func runConflict(c *collector, s cshape) int {
	typ, ok := s.build()
	if !ok {
		return 0
	}
	n := 0
	for _, key := range []string{"A", "B", "a", "b", "AB"} {
		doc := fmt.Sprintf(`{%q:7}`, key)
		a := reflect.New(typ)
		werr := stdjson.Unmarshal([]byte(doc), a.Interface())
		for _, mode := range []string{"buffer", "stream"} {
			b := reflect.New(typ)
			var gerr error
			rt.Journal("conflicts", func() string { x, _ := stdjson.Marshal(map[string]any{"cshape": s, "doc": doc}); return string(x) })
			pv := rt.Guard(func() {
				if mode == "buffer" {
					gerr = gojson.Unmarshal([]byte(doc), b.Interface())
				} else {
					gerr = gojson.NewDecoder(strings.NewReader(doc)).Decode(b.Interface())
				}
			})
			rt.Count("cases/conflicts", 1)
			n++
			var wm, gm []int64
			conflictMarkers(a.Elem(), &wm)
			conflictMarkers(b.Elem(), &gm)
			if pv != nil || (werr == nil) != (gerr == nil) || (werr == nil && !reflect.DeepEqual(wm, gm)) {
				if os.Getenv("C15_RAW") == "" && rt.Active(kfEmbedded) && s.sharedName() {
					rt.KnownHit(kfEmbedded)
					continue
				}
				cls := "conflict-decode/" + mode
				if os.Getenv("C15_RAW") != "" {
					cls += fmt.Sprintf("/%+v ptr=%v", s.Fields, s.Ptr)
				}
				c.add(cls, map[string]any{"cshape": s, "doc": doc, "mode": mode},
					fmt.Sprintf("fields %+v ptr=%v doc %s (%s): encoding/json %v err=%v, go-json %v err=%v panic=%v", s.Fields, s.Ptr, doc, mode, wm, werr, gm, gerr, pv))
			}
		}
	}
	// encode: set every int field to a distinct marker (allocating embedded pointers)
	v := reflect.New(typ).Elem()
	k := int64(1)
	var set func(v reflect.Value)
	set = func(v reflect.Value) {
		for i := 0; i < v.NumField(); i++ {
			f := v.Field(i)
			switch f.Kind() {
			case reflect.Ptr:
				f.Set(reflect.New(f.Type().Elem()))
				set(f.Elem())
			case reflect.Struct:
				set(f)
			default:
				f.SetInt(k)
				k++
			}
		}
	}
	set(v)
	// encoded through a pointer: a by-value struct whose only field is an embedded pointer is the
	// pointer-shaped-aggregate case of C01 (KF-ENC-pointer-shaped-aggregate), not a naming matter
	want, werr := stdjson.Marshal(v.Addr().Interface())
	var got []byte
	var gerr error
	pv := rt.Guard(func() { got, gerr = gojson.Marshal(v.Addr().Interface()) })
	rt.Count("cases/conflicts", 1)
	n++
	if pv != nil || (werr == nil) != (gerr == nil) || string(want) != string(got) {
		{
			cls := "conflict-encode"
			if os.Getenv("C15_RAW") != "" {
				cls += fmt.Sprintf("/%+v ptr=%v", s.Fields, s.Ptr)
			}
			c.add(cls, map[string]any{"cshape": s}, fmt.Sprintf("fields %+v ptr=%v: encoding/json %s err=%v, go-json %s err=%v panic=%v", s.Fields, s.Ptr, want, werr, got, gerr, pv))
		}
	}
	return n
}

func TestConflicts(t *testing.T) {} // placeholder so that the name is taken

func conflictShapes(nf int, f func(cshape)) {
	gos := []string{"A", "B"}
	tags := []string{"", "A", "B", "a"}
	var opts []cfield
	for _, g := range gos {
		for _, tg := range tags {
			for d := 0; d <= 2; d++ {
				opts = append(opts, cfield{g, tg, d})
			}
		}
	}
	var rec func(cur []cfield, start int)
	rec = func(cur []cfield, start int) {
		if len(cur) == nf {
			for _, ptr := range []bool{false, true} {
				f(cshape{Fields: append([]cfield{}, cur...), Ptr: ptr})
			}
			return
		}
		for i := start; i < len(opts); i++ {
			rec(append(cur, opts[i]), i) // combinations with repetition
		}
	}
	rec(nil, 0)
}

func TestReplay(t *testing.T) {
	f, err := rt.LoadReplay()
	if err != nil {
		t.Fatal(err)
	}
	var cs struct {
		Shape shape  `json:"shape"`
		Doc   string `json:"doc"`
	}
	if err := stdjson.Unmarshal(f.Case, &cs); err != nil {
		t.Fatal(err)
	}
	var cc struct {
		CShape *cshape `json:"cshape"`
	}
	stdjson.Unmarshal(f.Case, &cc)
	if cc.CShape != nil {
		c := &collector{b: map[string]*bucket{}}
		runConflict(c, *cc.CShape)
		c.report(t, "replay")
		return
	}
	typ, ok := cs.Shape.build()
	if !ok {
		t.Fatal("cannot build shape")
	}
	c := &collector{b: map[string]*bucket{}}
	if cs.Doc == "" {
		checkEncode(c, cs.Shape, typ)
	} else {
		checkOne(c, "replay", cs.Shape, typ, cs.Doc, "replay")
	}
	c.report(t, "replay")
}

func TestWitness(t *testing.T) {
	enc.RunWitness(t)
}

var _ = gen.Render
var _ = known.RunWitness
