package c01

import (
	stdjson "encoding/json"
	"fmt"
	"os"
	"reflect"
	"testing"

	"pgregory.net/rapid"

	_ "verif/harness/dec"
	"verif/harness/enc"
	"verif/harness/gen"
	"verif/harness/known"
	"verif/harness/ref"
	"verif/harness/rt"
)

const prop = "C01"

func TestMain(m *testing.M) {
	code := m.Run()
	rt.Flush()
	os.Exit(code)
}

func typeCfg() gen.TypeCfg {
	c := gen.DefaultTypeCfg()
	c.Leaves = append(append(append([]string{}, gen.PlainLeaves...), gen.MarshalerLeaves...), "EmbA", "EmbB", "EmbC", "RoundMJ", "KeyMT")
	c.KeyKinds = append(append([]string{}, gen.DefaultKeyKinds...), "leaf:KeyMT", "leaf:IntKeyMT", "leaf:StrMT")
	c.BigArrays = true
	return c
}

func TestCheck(t *testing.T) {
	n := rt.PerShard(rt.N(320000, 4000000))
	rt.Rapid(t, "reflect", n, func(t *rapid.T) {
		spec := gen.GenType(t, typeCfg())
		known.RepairEncSpec(spec)
		typ := enc.SafeType(spec)
		if typ == nil {
			t.Skip("reflect refuses the shape")
		}
		v, rec := gen.Draw(t, typ, known.EncValCfg(gen.ValCfg{}))
		c := &enc.Case{Spec: spec, Type: spec.String(), Recipe: rec, Active: rt.ActiveList()}
		c.Reach = known.EncReach(spec, rapid.SampledFrom(enc.Reaches).Draw(t, "reach"))
		o := enc.DrawOpts(t)
		c.Entry, c.Escape, c.Prefix, c.Indent = o.Entry, o.Escape, o.Prefix, o.Indent
		if msg := runCase(c, v); msg != "" {
			t.Fatalf("%s", msg)
		}
	})
}

func runCase(c *enc.Case, v reflect.Value) string {
	const sub = "reflect"
	o := enc.Opts{Entry: c.Entry, Escape: c.Escape, Prefix: c.Prefix, Indent: c.Indent}
	val := enc.Wrap(v, c.Reach)
	want, werr := enc.Std(val, o)
	rt.Journal(sub, func() string { b, _ := stdjson.Marshal(c); return string(b) })
	got, gerr, pv := enc.Go(val, o)
	rt.Count("cases/"+sub, 1)
	label(c, werr)
	fail := ""
	switch {
	case pv != nil:
		fail = fmt.Sprintf("panic: %v", pv)
	case (werr == nil) != (gerr == nil):
		fail = fmt.Sprintf("error mismatch: encoding/json err=%v, go-json err=%v (go-json output %q)", werr, gerr, clip(got))
	case werr == nil:
		if d := ref.SameDocument(want, got); d != "" {
			fail = fmt.Sprintf("documents differ: %s\n encoding/json: %s\n go-json:       %s", d, clip(want), clip(got))
		}
	}
	if werr == nil && c.Spec.Nodes() >= 3 && c.Spec.Has((*gen.TypeSpec).Composite) && len(want) > 4 {
		rt.NonTrivial(rt.Hash64(c.Type, string(want), c.Reach, c.Entry, fmt.Sprint(c.Escape), c.Prefix, c.Indent))
	}
	if rt.WantSample(sub) {
		rt.Sample(sub, map[string]any{"type": c.Type, "reach": c.Reach, "entry": c.Entry, "std": clip(want)})
	} else {
		rt.Sample(sub, nil)
	}
	if fail == "" {
		return ""
	}
	c.Std, c.Got = clip(want), clip(got)
	if rt.Collecting {
		rt.Collect(signature(c, fail), c, fail)
		return ""
	}
	return rt.Fail(prop, sub, c, "%s\n type: %s\n reach=%s entry=%s escape=%v", fail, c.Type, c.Reach, c.Entry, c.Escape)
}

func label(c *enc.Case, werr error) {
	rt.Label("reach=" + c.Reach)
	rt.Label("entry=" + c.Entry)
	if werr != nil {
		rt.Label("std-error")
	} else {
		rt.Label("std-success")
	}
	seen := map[string]bool{}
	c.Spec.Walk(func(n *gen.TypeSpec) {
		k := n.K
		if !seen[k] {
			seen[k] = true
			rt.Label("kind=" + k)
		}
		for _, f := range n.Fields {
			if f.Embedded && !seen["embedded"] {
				seen["embedded"] = true
				rt.Label("has-embedded")
			}
		}
	})
}

func clip(b []byte) string {
	if len(b) > 600 {
		return string(b[:600]) + "…"
	}
	return string(b)
}

func rebuild(c *enc.Case) (reflect.Value, error) {
	typ := enc.SafeType(c.Spec)
	if typ == nil {
		return reflect.Value{}, fmt.Errorf("cannot realise type")
	}
	return gen.Rebuild(typ, c.Recipe, known.EncValCfg(gen.ValCfg{})), nil
}

func TestReplay(t *testing.T) {
	f, err := rt.LoadReplay()
	if err != nil {
		t.Fatal(err)
	}
	var c enc.Case
	if err := stdjson.Unmarshal(f.Case, &c); err != nil {
		t.Fatal(err)
	}
	rt.SetActive(c.Active)
	v, err := rebuild(&c)
	if err != nil {
		t.Fatal(err)
	}
	if msg := runCase(&c, v); msg != "" {
		t.Fatal(msg)
	}
}

func TestWitness(t *testing.T) {
	enc.RunWitness(t)
}

// signature buckets failures for collect mode (development aid).
func signature(c *enc.Case, fail string) string {
	kinds := ""
	c.Spec.Walk(func(n *gen.TypeSpec) {
		if len(kinds) < 60 {
			kinds += n.K + " "
		}
	})
	f := fail
	if len(f) > 40 {
		f = f[:40]
	}
	return f + " | " + kinds
}
