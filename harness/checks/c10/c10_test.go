package c10

import (
	"bytes"
	"context"
	stdjson "encoding/json"
	"fmt"
	"os"
	"reflect"
	"runtime"
	"runtime/debug"
	"strings"
	"sync"
	"testing"

	gojson "github.com/goccy/go-json"

	"verif/harness/corpus"
	_ "verif/harness/dec"
	"verif/harness/enc"
	"verif/harness/gen"
	"verif/harness/ref"
	"verif/harness/rt"
)

const prop = "C10"

func TestMain(m *testing.M) {
	code := m.Run()
	rt.Flush()
	os.Exit(code)
}

// Round is the reproducible part of one concurrent round (the schedule itself is not).
type Round struct {
	Shard   int      `json:"shard"`
	NShards int      `json:"nshards"`
	Index   int      `json:"index"` // round number inside the shard: fixes which fresh types are used
	Seed    uint64   `json:"seed"`
	G       int      `json:"goroutines"`
	Procs   int      `json:"gomaxprocs"`
	Types   []string `json:"types,omitempty"`
	Task    string   `json:"task,omitempty"`
}

type task struct {
	name string
	typ  reflect.Type
	run  func() string // returns the canonical outcome
	std  string        // expected outcome by encoding/json ("" = not applicable)
}

type failer struct {
	t     *testing.T
	fails int
}

func (f *failer) fail(sub string, c Round, format string, args ...any) {
	f.fails++
	if f.fails <= 3 {
		f.t.Error(rt.Fail(prop, sub, c, format, args...))
	}
}

func outcome(b []byte, err error) string {
	if err != nil {
		return "error: " + err.Error()
	}
	return string(b)
}

func firstFieldName(t reflect.Type) string {
	if t.Kind() != reflect.Struct || t.NumField() == 0 || t.Field(0).Anonymous {
		return ""
	}
	name := t.Field(0).Name
	if tag := strings.Split(t.Field(0).Tag.Get("json"), ",")[0]; tag != "" {
		name = tag
	}
	return name
}

// tasksFor builds the operation mix over one type; handles (query, path) are shared by all goroutines.
func tasksFor(label string, t reflect.Type, fl *corpus.Filler, withStd bool) []task {
	var ts []task
	v := corpus.NewFiller(fl.Next64(), 120).Fill(t)
	val := v.Interface()
	ptr := v.Addr().Interface()
	want, werr := stdjson.Marshal(val)
	wantPtr, _ := stdjson.Marshal(ptr)
	if werr != nil {
		return nil
	}
	doc := append([]byte(nil), wantPtr...)
	same := func(got []byte, err error, w []byte) string {
		if err != nil {
			return "error: " + err.Error()
		}
		if withStd {
			if d := ref.SameDocument(got, w); d != "" {
				return "differs from encoding/json: " + d + " got=" + clip(string(got))
			}
			return "same-as-std"
		}
		return string(got)
	}
	stdOK := ""
	if withStd {
		stdOK = "same-as-std"
	}
	ts = append(ts,
		task{label + "/Marshal", t, func() string { b, err := gojson.Marshal(val); return same(b, err, want) }, stdOK},
		task{label + "/Marshal(ptr)", t, func() string { b, err := gojson.Marshal(ptr); return same(b, err, wantPtr) }, stdOK},
		task{label + "/MarshalIndent", t, func() string { b, err := gojson.MarshalIndent(ptr, "", " "); return same(b, err, wantPtr) }, stdOK},
		task{label + "/Encoder", t, func() string {
			var buf bytes.Buffer
			e := gojson.NewEncoder(&buf)
			if err := e.Encode(ptr); err != nil {
				return "error: " + err.Error()
			}
			if err := e.Encode(val); err != nil {
				return "error: " + err.Error()
			}
			return buf.String()
		}, ""},
		task{label + "/Unmarshal", t, func() string {
			dst := reflect.New(t)
			err := gojson.Unmarshal(doc, dst.Interface())
			return outcome([]byte(gen.Render(dst.Elem())), err)
		}, func() string {
			if !withStd {
				return ""
			}
			dst := reflect.New(t)
			err := stdjson.Unmarshal(doc, dst.Interface())
			return outcome([]byte(gen.Render(dst.Elem())), err)
		}()},
		task{label + "/Decoder", t, func() string {
			dst := reflect.New(t)
			d := gojson.NewDecoder(bytes.NewReader(append(append([]byte(nil), doc...), '\n')))
			err := d.Decode(dst.Interface())
			return outcome([]byte(gen.Render(dst.Elem())), err)
		}, ""},
		task{label + "/Valid+Compact+Indent", t, func() string {
			var a, b bytes.Buffer
			e1 := gojson.Compact(&a, doc)
			e2 := gojson.Indent(&b, doc, "", "\t")
			return fmt.Sprint(gojson.Valid(doc), e1, e2, a.Len(), b.Len(), rt.Hash64(a.String(), b.String()))
		}, ""},
	)
	if name := firstFieldName(t); name != "" && !strings.Contains(label, "rt:") {
		if q, err := gojson.BuildFieldQuery(gojson.FieldQueryString(name)); err == nil {
			ctx := gojson.SetFieldQueryToContext(context.Background(), q) // one FieldQuery shared by every goroutine
			ts = append(ts, task{label + "/MarshalContext(shared FieldQuery)", t, func() string {
				b, err := gojson.MarshalContext(ctx, ptr)
				return outcome(b, err)
			}, ""})
		}
		if p, err := gojson.CreatePath("$." + name); err == nil { // one Path shared by every goroutine
			ts = append(ts, task{label + "/Path.Extract(shared Path)", t, func() string {
				parts, err := p.Extract(doc)
				return outcome(bytes.Join(parts, []byte("|")), err)
			}, ""})
		}
	}
	return ts
}

func clip(s string) string {
	if len(s) > 300 {
		return s[:300] + "…"
	}
	return s
}

var bigMap = func() map[string]interface{} {
	m := map[string]interface{}{}
	for i := 0; i < 40; i++ {
		m[fmt.Sprintf("key%02d", i)] = map[string]interface{}{"a": float64(i), "b": []interface{}{"x", float64(i)}, "c": map[string]interface{}{"d": nil}}
	}
	return m
}()

// runtimeType makes a type that exists nowhere in the binary (heap descriptor, fallback cache).
func runtimeType(base reflect.Type, round, k int) reflect.Type {
	switch k % 4 {
	case 0:
		return reflect.StructOf([]reflect.StructField{
			{Name: fmt.Sprintf("R%d_%d", round, k), Type: base},
			{Name: "N", Type: reflect.TypeOf(0), Tag: reflect.StructTag(fmt.Sprintf(`json:"n%d"`, round))},
		})
	case 1:
		return reflect.ArrayOf(2+round%7, reflect.SliceOf(base))
	case 2:
		return reflect.MapOf(reflect.TypeOf(""), reflect.ArrayOf(1+round%5, base))
	}
	return reflect.SliceOf(reflect.StructOf([]reflect.StructField{{Name: fmt.Sprintf("Q%d", round), Type: reflect.PointerTo(base)}, {Name: "Z", Type: reflect.TypeOf("")}}))
}

func runRound(f *failer, r Round) {
	fl := corpus.NewFiller(r.Seed, 1<<30)
	// fresh compiled types: this shard's slice of the registry, K per round, never touched before
	const K = 3
	var tasks []task
	var named []string
	for k := 0; k < K; k++ {
		idx := (r.Index*K+k)*r.NShards + r.Shard
		if idx >= len(Registry) {
			break
		}
		e := &Registry[idx]
		if e.Composite {
			continue
		}
		named = append(named, e.Name)
		tasks = append(tasks, tasksFor(e.Name, e.Type, fl, true)...)
		if !e.PtrRecvByValue {
			rtT := runtimeType(e.Type, r.Index*r.NShards+r.Shard, k)
			tasks = append(tasks, tasksFor("rt:"+rtT.String(), rtT, fl, true)...)
		}
	}
	coldTypes := len(named)
	if coldTypes == 0 {
		rt.Label("round without fresh compiled types (registry exhausted)")
		rtT := runtimeType(reflect.TypeOf(struct{ A int }{}), r.Index*r.NShards+r.Shard, r.Index)
		tasks = append(tasks, tasksFor("rt:"+rtT.String(), rtT, fl, true)...)
	}
	tasks = append(tasks,
		task{"bigmap/MarshalIndent", nil, func() string { b, err := gojson.MarshalIndent(bigMap, "", "  "); return outcome(b, err) }, func() string { b, _ := stdjson.MarshalIndent(bigMap, "", "  "); return string(b) }()},
		task{"bigmap/Marshal", nil, func() string { b, err := gojson.Marshal(bigMap); return outcome(b, err) }, func() string { b, _ := stdjson.Marshal(bigMap); return string(b) }()},
	)
	if only := os.Getenv("VERIF_C10_ONLY"); only != "" { // development aid: restrict the operation mix
		var keep []task
		for _, tk := range tasks {
			for _, o := range strings.Split(only, ",") {
				if strings.Contains(tk.name, o) {
					keep = append(keep, tk)
					break
				}
			}
		}
		tasks = keep
	}
	r.Types = named
	rt.Journal("round", func() string { b, _ := stdjson.Marshal(r); return string(b) })
	prev := runtime.GOMAXPROCS(r.Procs)
	defer runtime.GOMAXPROCS(prev)

	type result struct {
		task int
		out  string
	}
	results := make([][]result, r.G)
	orders := make([][]int, r.G)
	for g := range orders {
		// every goroutine runs every task, each in its own order, some twice: first uses collide
		n := len(tasks)
		o := make([]int, 0, n+n/3)
		for i := 0; i < n; i++ {
			o = append(o, i)
		}
		for i := n - 1; i > 0; i-- {
			j := fl.Intn(i + 1)
			o[i], o[j] = o[j], o[i]
		}
		if g%2 == 0 {
			o = append(o, o[:n/3]...)
		}
		if g%3 == 0 { // all of these start with the same task
			o[0] = 0
		}
		orders[g] = o
	}
	jitter := make([]int, r.G)
	for g := range jitter {
		jitter[g] = fl.Intn(4)
	}
	start := make(chan struct{})
	var wg sync.WaitGroup
	panics := make([]string, r.G)
	for g := 0; g < r.G; g++ {
		wg.Add(1)
		go func(g int) {
			defer wg.Done()
			defer func() {
				if os.Getenv("VERIF_NOGUARD") != "" {
					return // development aid: let the panic print its stack
				}
				if p := recover(); p != nil {
					st := string(debug.Stack())
					if k := strings.Index(st, "panic("); k >= 0 {
						st = st[k:]
					}
					if len(st) > 1800 {
						st = st[:1800]
					}
					panics[g] = fmt.Sprint(p) + "\n" + st
				}
			}()
			<-start
			for k, ti := range orders[g] {
				if jitter[g] > 0 && k%jitter[g] == 0 {
					runtime.Gosched()
				}
				results[g] = append(results[g], result{ti, tasks[ti].run()})
			}
		}(g)
	}
	close(start)
	wg.Wait()
	rt.Count("cases/rounds", 1)
	// sequential reference, afterwards, in the same process
	expect := make([]string, len(tasks))
	for i := range tasks {
		expect[i] = tasks[i].run()
	}
	for g := range results {
		if panics[g] != "" {
			r.Task = "goroutine " + fmt.Sprint(g)
			f.fail("panic", r, "goroutine %d of %d panicked: %s", g, r.G, panics[g])
			return
		}
		for _, res := range results[g] {
			rt.Count("calls", 1)
			if res.out != expect[res.task] {
				r.Task = tasks[res.task].name
				f.fail("differs-from-sequential", r, "%s in goroutine %d of %d (GOMAXPROCS %d) returned\n  %s\nthe same call made alone afterwards returns\n  %s", tasks[res.task].name, g, r.G, r.Procs, clip(res.out), clip(expect[res.task]))
				return
			}
		}
	}
	for i := range tasks {
		bothErr := strings.HasPrefix(expect[i], "error: ") && strings.HasPrefix(tasks[i].std, "error: ") // error texts are not compared with encoding/json's
		if tasks[i].std != "" && expect[i] != tasks[i].std && !bothErr {
			r.Task = tasks[i].name
			f.fail("differs-from-std", r, "%s returns\n  %s\nencoding/json:\n  %s", tasks[i].name, clip(expect[i]), clip(tasks[i].std))
			return
		}
	}
	if coldTypes > 0 {
		rt.NonTrivial(rt.Hash64(fmt.Sprint(r.Shard, r.Index, r.G, r.Procs, r.Seed)))
		rt.Label("round in which several goroutines first-use the same compiled type")
	}
	rt.Label(fmt.Sprintf("G=%d", r.G))
	rt.Label(fmt.Sprintf("GOMAXPROCS=%d", r.Procs))
	if rt.WantSample("rounds") {
		rt.Sample("rounds", map[string]any{"round": r, "tasks": len(tasks)})
	} else {
		rt.Sample("rounds", nil)
	}
}

func isRace() bool { return strings.Contains(os.Getenv("VERIF_VARIANT"), "race") }

func TestCheck(t *testing.T) {
	f := &failer{t: t}
	fl := corpus.NewFiller(rt.SubSeed("c10"), 1<<30)
	gs := []int{2, 4, 16, 64}
	ps := []int{1, 2, 4, 16}
	rounds := rt.PerShard(rt.N(16*30, 16*120))
	if isRace() {
		rounds = rounds / 2
	}
	for i := 0; i < rounds && f.fails == 0; i++ {
		r := Round{Shard: rt.E.Shard, NShards: rt.E.NShards, Index: i, Seed: fl.Next64(), G: gs[fl.Intn(len(gs))], Procs: ps[fl.Intn(len(ps))]}
		runRound(f, r)
	}
}

func TestReplay(t *testing.T) {
	fl, err := rt.LoadReplay()
	if err != nil {
		t.Fatal(err)
	}
	var r Round
	if err := stdjson.Unmarshal(bytes.TrimSpace(fl.Case), &r); err != nil {
		t.Fatal(err)
	}
	f := &failer{t: t}
	// schedules are not reproducible: repeat the round (its types are cold only the first time)
	for i := 0; i < 20 && f.fails == 0; i++ {
		runRound(f, r)
	}
}

func TestWitness(t *testing.T) {
	enc.RunWitness(t)
}
