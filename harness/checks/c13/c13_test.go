package c13

import (
	"bytes"
	"context"
	stdjson "encoding/json"
	"fmt"
	"io"
	"os"
	"reflect"
	"regexp"
	"sort"
	"strings"
	"testing"

	gojson "github.com/goccy/go-json"
	"pgregory.net/rapid"

	_ "verif/harness/dec"
	"verif/harness/enc"
	"verif/harness/gen"
	"verif/harness/known"
	"verif/harness/ref"
	"verif/harness/rt"
)

const prop = "C13"

func TestMain(m *testing.M) {
	code := m.Run()
	rt.Flush()
	os.Exit(code)
}

type Case struct {
	enc.Case
	Scheme int `json:"scheme"` // index into schemes
}

func typeCfg() gen.TypeCfg {
	c := gen.DefaultTypeCfg()
	c.Leaves = append(append(append([]string{}, gen.PlainLeaves...), gen.MarshalerLeaves...), "EmbA", "EmbB", "RoundMJ", "KeyMT")
	c.KeyKinds = append(append([]string{}, gen.DefaultKeyKinds...), "leaf:KeyMT", "leaf:IntKeyMT")
	return c
}

// colour schemes with markers that cannot occur raw in JSON output
func fm(h, f string) gojson.ColorFormat { return gojson.ColorFormat{Header: h, Footer: f} }

var schemes = []*gojson.ColorScheme{
	{},
	gojson.DefaultColorScheme,
	{Int: fm("\x01i", "\x02"), Uint: fm("\x01u", "\x02"), Float: fm("\x01f", "\x02"), Bool: fm("\x01b", "\x02"), String: fm("\x01s", "\x02"),
		Binary: fm("\x01y", "\x02"), ObjectKey: fm("\x01k", "\x02"), Null: fm("\x01n", "\x02")},
	{Int: fm("\x03", ""), String: fm("", "\x04"), ObjectKey: fm("\x03\x03", "\x04\x04"), Null: fm("\x03", "\x04")},
}

var markerRE = regexp.MustCompile("\x1b\\[\\d+m|\x01[iufbsykn]|[\x02\x03\x04]")

func stripMarkers(b []byte) []byte { return markerRE.ReplaceAll(b, nil) }

var prefixes = []string{"", "", " ", "\t", "→ ", ">>"}
var indents = []string{"  ", "\t", "", " ", "→", "    "}

func TestCheck(t *testing.T) {
	n := rt.PerShard(rt.N(400000, 3000000))
	rt.Rapid(t, "variants", n, func(t *rapid.T) {
		spec := gen.GenType(t, typeCfg())
		repairPtrRecv(spec) // first: it can create pointer-shaped structs, which RepairEncSpec has to see
		known.RepairEncSpec(spec)
		typ := enc.SafeType(spec)
		if typ == nil {
			t.Skip("reflect refuses the shape")
		}
		v, rec := gen.Draw(t, typ, known.EncValCfg(gen.ValCfg{}))
		c := &Case{}
		c.Spec, c.Type, c.Recipe, c.Active = spec, spec.String(), rec, rt.ActiveList()
		c.Prefix = rapid.SampledFrom(prefixes).Draw(t, "prefix")
		c.Indent = rapid.SampledFrom(indents).Draw(t, "indent")
		c.Scheme = rapid.IntRange(0, len(schemes)-1).Draw(t, "scheme")
		if msg := runCase(c, v); msg != "" {
			t.Fatalf("%s", msg)
		}
	})
}

// repairPtrRecv: pointer-receiver marshalers legitimately encode differently by value and behind a
// pointer (addressability, as in encoding/json), so in this check they only appear behind a pointer.
const kfColorString = "KF-C13-colorize-string-option-on-string"

func repairPtrRecv(s *gen.TypeSpec) {
	if rt.Active(kfColorString) {
		s.Walk(func(n *gen.TypeSpec) {
			for i := range n.Fields {
				f := &n.Fields[i]
				u := f.T
				for u.K == "ptr" {
					u = u.Elem
				}
				if f.HasTag && strings.Contains(f.Tag, ",string") && (u.K == "string" || u.K == "leaf:NStr") {
					f.Tag = strings.Replace(f.Tag, ",string", "", 1)
					rt.Excluded(kfColorString)
				}
			}
		})
	}
	var fix func(n *gen.TypeSpec, behindPtr bool)
	fix = func(n *gen.TypeSpec, behindPtr bool) {
		if (n.K == "leaf:PtrMJ" || n.K == "leaf:PtrMT") && !behindPtr {
			k := n.K
			*n = gen.TypeSpec{K: "ptr", Elem: &gen.TypeSpec{K: k}}
			return
		}
		if n.Elem != nil {
			fix(n.Elem, n.K == "ptr")
		}
		for i := range n.Fields {
			fix(n.Fields[i].T, false)
		}
	}
	fix(s, false)
}

type res struct {
	out []byte
	err error
	pv  any
}

func call(f func() ([]byte, error)) (r res) {
	defer func() {
		if x := recover(); x != nil {
			r.pv = fmt.Sprint(x)
		}
	}()
	r.out, r.err = f()
	return
}

func (r res) String() string {
	if r.pv != nil {
		return fmt.Sprintf("panic(%v)", r.pv)
	}
	if r.err != nil {
		return fmt.Sprintf("error(%v)", r.err)
	}
	return fmt.Sprintf("%q", clip(r.out))
}

func runCase(c *Case, v reflect.Value) string {
	const sub = "variants"
	val := v.Interface()
	rt.Journal(sub, func() string { b, _ := stdjson.Marshal(c); return string(b) })
	rt.Count("cases/"+sub, 1)
	plain := call(func() ([]byte, error) { return gojson.Marshal(val) })
	fail := func(variant string, got res, want string) string {
		c.Std, c.Got = want, got.String()
		return rt.Fail(prop, sub, c, "variant %s disagrees with Marshal\n type: %s\n Marshal: %s\n %s: %s\n expected: %s", variant, c.Type, plain, variant, got, want)
	}
	if plain.pv != nil {
		return fail("marshal", plain, "no panic")
	}
	type variant struct {
		name string
		f    func() ([]byte, error)
		// expect maps Marshal's bytes to the bytes this variant must produce
		expect func([]byte) ([]byte, bool)
	}
	id := func(b []byte) ([]byte, bool) { return b, true }
	scheme := schemes[c.Scheme]
	vs := []variant{
		{"MarshalIndent", func() ([]byte, error) { return gojson.MarshalIndent(val, c.Prefix, c.Indent) }, func(b []byte) ([]byte, bool) {
			var buf bytes.Buffer
			if err := stdjson.Indent(&buf, b, c.Prefix, c.Indent); err != nil {
				return nil, false
			}
			return buf.Bytes(), true
		}},
		{"Colorize", func() ([]byte, error) {
			b, err := gojson.MarshalWithOption(val, gojson.Colorize(scheme))
			return stripMarkers(b), err
		}, id},
		{"Colorize+Indent", func() ([]byte, error) {
			b, err := gojson.MarshalIndentWithOption(val, c.Prefix, c.Indent, gojson.Colorize(scheme))
			if strings.ContainsAny(c.Prefix+c.Indent, "\x01\x02\x03\x04\x1b") {
				return b, err
			}
			return stripMarkers(b), err
		}, func(b []byte) ([]byte, bool) {
			var buf bytes.Buffer
			if err := stdjson.Indent(&buf, b, c.Prefix, c.Indent); err != nil {
				return nil, false
			}
			return buf.Bytes(), true
		}},
		{"Colorize(zero scheme)", func() ([]byte, error) { return gojson.MarshalWithOption(val, gojson.Colorize(schemes[0])) }, id},
		{"UnorderedMap", func() ([]byte, error) {
			b, err := gojson.MarshalWithOption(val, gojson.UnorderedMap())
			if err != nil {
				return b, err
			}
			return sortObjects(b), nil
		}, func(b []byte) ([]byte, bool) { return sortObjects(b), true }},
		{"DisableHTMLEscape", func() ([]byte, error) { return gojson.MarshalWithOption(val, gojson.DisableHTMLEscape()) }, func(b []byte) ([]byte, bool) { return unescapeHTML(b), true }},
		{"Encoder.Encode", func() ([]byte, error) {
			var buf bytes.Buffer
			err := gojson.NewEncoder(&buf).Encode(val)
			return buf.Bytes(), err
		}, func(b []byte) ([]byte, bool) { return append(append([]byte{}, b...), '\n'), true }},
		{"Encoder.SetIndent", func() ([]byte, error) {
			var buf bytes.Buffer
			e := gojson.NewEncoder(&buf)
			e.SetIndent(c.Prefix, c.Indent)
			err := e.Encode(val)
			return buf.Bytes(), err
		}, func(b []byte) ([]byte, bool) {
			if c.Prefix == "" && c.Indent == "" { // as in encoding/json, SetIndent("", "") switches indentation off
				return append(append([]byte{}, b...), '\n'), true
			}
			var buf bytes.Buffer
			if err := stdjson.Indent(&buf, b, c.Prefix, c.Indent); err != nil {
				return nil, false
			}
			buf.WriteByte('\n')
			return buf.Bytes(), true
		}},
		{"MarshalNoEscape", func() ([]byte, error) { return gojson.MarshalNoEscape(val) }, id},
		{"MarshalContext", func() ([]byte, error) { return gojson.MarshalContext(context.Background(), val) }, id},
		{"Debug", func() ([]byte, error) {
			return gojson.MarshalWithOption(val, gojson.Debug(), gojson.DebugWith(io.Discard))
		}, id},
		{"Marshal(&v)", func() ([]byte, error) { return gojson.Marshal(v.Addr().Interface()) }, id},
		{"[]interface{}{v}", func() ([]byte, error) { return gojson.Marshal([]interface{}{val}) }, func(b []byte) ([]byte, bool) {
			return append(append([]byte("["), b...), ']'), true
		}},
		{"struct{X interface{}}{v}", func() ([]byte, error) { return gojson.Marshal(struct{ X interface{} }{val}) }, func(b []byte) ([]byte, bool) {
			return append(append([]byte(`{"X":`), b...), '}'), true
		}},
		{"MarshalIndent([]interface{}{v})", func() ([]byte, error) { return gojson.MarshalIndent([]interface{}{val}, c.Prefix, c.Indent) }, func(b []byte) ([]byte, bool) {
			return stdIndent(append(append([]byte("["), b...), ']'), c.Prefix, c.Indent)
		}},
		{"MarshalIndent(struct{X interface{}}{v})", func() ([]byte, error) {
			return gojson.MarshalIndent(struct{ X interface{} }{val}, c.Prefix, c.Indent)
		}, func(b []byte) ([]byte, bool) {
			return stdIndent(append(append([]byte(`{"X":`), b...), '}'), c.Prefix, c.Indent)
		}},
		{"MarshalIndent(map[string]interface{}{k:[]interface{}{v}})", func() ([]byte, error) {
			return gojson.MarshalIndent(map[string]interface{}{"k": []interface{}{val}}, c.Prefix, c.Indent)
		}, func(b []byte) ([]byte, bool) {
			return stdIndent(append(append([]byte(`{"k":[`), b...), ']', '}'), c.Prefix, c.Indent)
		}},
		{"MarshalIndent(&v)", func() ([]byte, error) { return gojson.MarshalIndent(v.Addr().Interface(), c.Prefix, c.Indent) }, func(b []byte) ([]byte, bool) {
			return stdIndent(b, c.Prefix, c.Indent)
		}},
		{"map[string]interface{}{k:v}", func() ([]byte, error) { return gojson.Marshal(map[string]interface{}{"k": val}) }, func(b []byte) ([]byte, bool) {
			return append(append([]byte(`{"k":`), b...), '}'), true
		}},
	}
	for _, vr := range vs {
		if (vr.name == "Marshal(&v)" || vr.name == "MarshalIndent(&v)") && known.EncReach(c.Spec, "ptr") != "ptr" {
			continue
		}
		got := call(vr.f)
		rt.Label("variant=" + vr.name)
		if got.pv != nil {
			return fail(vr.name, got, "no panic")
		}
		if (got.err == nil) != (plain.err == nil) {
			return fail(vr.name, got, "error iff Marshal errs")
		}
		if plain.err != nil {
			continue
		}
		want, ok := vr.expect(plain.out)
		if !ok {
			return fail(vr.name, got, "(encoding/json.Indent rejects Marshal's own output)")
		}
		if !bytes.Equal(got.out, want) {
			return fail(vr.name, got, fmt.Sprintf("%q", clip(want)))
		}
	}
	if plain.err == nil {
		rt.Label("success")
		if ref.Depth(plain.out) >= 2 || c.Spec.Has(func(n *gen.TypeSpec) bool { return strings.HasPrefix(n.K, "leaf:") }) {
			rt.NonTrivial(rt.Hash64(c.Type, string(plain.out), c.Prefix, c.Indent, fmt.Sprint(c.Scheme)))
		}
	} else {
		rt.Label("error")
	}
	if rt.WantSample(sub) {
		rt.Sample(sub, map[string]any{"type": c.Type, "prefix": c.Prefix, "indent": c.Indent, "scheme": c.Scheme, "marshal": plain.String()})
	} else {
		rt.Sample(sub, nil)
	}
	return ""
}

func stdIndent(b []byte, prefix, indent string) ([]byte, bool) {
	var buf bytes.Buffer
	if err := stdjson.Indent(&buf, b, prefix, indent); err != nil {
		return nil, false
	}
	return buf.Bytes(), true
}

// unescapeHTML maps the escapes < > & inside string tokens back to < > &.
func unescapeHTML(b []byte) []byte {
	out := make([]byte, 0, len(b))
	in := false
	for i := 0; i < len(b); i++ {
		c := b[i]
		if !in {
			if c == '"' {
				in = true
			}
			out = append(out, c)
			continue
		}
		if c == '\\' && i+1 < len(b) {
			if b[i+1] == 'u' && i+6 <= len(b) {
				switch strings.ToLower(string(b[i+2 : i+6])) {
				case "003c":
					out = append(out, '<')
					i += 5
					continue
				case "003e":
					out = append(out, '>')
					i += 5
					continue
				case "0026":
					out = append(out, '&')
					i += 5
					continue
				}
			}
			out = append(out, c, b[i+1])
			i++
			continue
		}
		if c == '"' {
			in = false
		}
		out = append(out, c)
	}
	return out
}

// sortObjects re-renders a valid compact JSON text with the members of every object sorted by key
// (stable), so that two texts differing only in member order become equal.
func sortObjects(b []byte) []byte {
	toks, err := ref.Tokens(b)
	if err != nil {
		return b
	}
	pos := 0
	var value func() []byte
	value = func() []byte {
		t := toks[pos]
		switch t.Kind {
		case ref.TObjOpen:
			pos++
			type member struct{ k, v []byte }
			var ms []member
			for toks[pos].Kind != ref.TObjClose {
				if toks[pos].Kind == ref.TComma {
					pos++
				}
				k := b[toks[pos].Start:toks[pos].End]
				pos += 2 // key, colon
				ms = append(ms, member{k, value()})
			}
			pos++
			sort.SliceStable(ms, func(i, j int) bool { return bytes.Compare(ms[i].k, ms[j].k) < 0 })
			out := []byte{'{'}
			for i, m := range ms {
				if i > 0 {
					out = append(out, ',')
				}
				out = append(append(append(out, m.k...), ':'), m.v...)
			}
			return append(out, '}')
		case ref.TArrOpen:
			pos++
			out := []byte{'['}
			first := true
			for toks[pos].Kind != ref.TArrClose {
				if toks[pos].Kind == ref.TComma {
					pos++
				}
				if !first {
					out = append(out, ',')
				}
				first = false
				out = append(out, value()...)
			}
			pos++
			return append(out, ']')
		}
		pos++
		return b[t.Start:t.End]
	}
	return value()
}

func clip(b []byte) string {
	if len(b) > 500 {
		return string(b[:500]) + "…"
	}
	return string(b)
}

func TestReplay(t *testing.T) {
	f, err := rt.LoadReplay()
	if err != nil {
		t.Fatal(err)
	}
	var c Case
	if err := stdjson.Unmarshal(f.Case, &c); err != nil {
		t.Fatal(err)
	}
	rt.SetActive(c.Active)
	typ := enc.SafeType(c.Spec)
	if typ == nil {
		t.Fatal("cannot realise type")
	}
	v := gen.Rebuild(typ, c.Recipe, known.EncValCfg(gen.ValCfg{}))
	if msg := runCase(&c, v); msg != "" {
		t.Fatal(msg)
	}
}

func TestWitness(t *testing.T) {
	known.Witnesses[kfColorString] = func() (bool, string) {
		v := struct {
			A string `json:",string"`
		}{"s"}
		p, _ := gojson.Marshal(v)
		g, _ := gojson.MarshalWithOption(v, gojson.Colorize(gojson.DefaultColorScheme))
		return !bytes.Equal(p, stripMarkers(g)), fmt.Sprintf("plain=%q colour-stripped=%q", p, stripMarkers(g))
	}
	enc.RunWitness(t)
}
