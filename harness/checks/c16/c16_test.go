package c16

import (
	"bytes"
	"encoding/base64"
	stdjson "encoding/json"
	"fmt"
	"math"
	"math/big"
	"os"
	"strconv"
	"strings"
	"testing"

	gojson "github.com/goccy/go-json"

	_ "verif/harness/dec"
	"verif/harness/jsongen"
	"verif/harness/known"
	"verif/harness/ref"
	"verif/harness/rt"
)

const prop = "C16"

func TestMain(m *testing.M) {
	code := m.Run()
	rt.Flush()
	os.Exit(code)
}

type integer interface {
	~int | ~int8 | ~int16 | ~int32 | ~int64 | ~uint | ~uint8 | ~uint16 | ~uint32 | ~uint64 | ~uintptr
}

// positions a value can sit in when encoding
type pos[T integer] struct {
	A T
	P *T
	O T  `json:"o,omitempty"`
	S T  `json:"s,string"`
	Q *T `json:"q,string"`
	M map[T]int
	E [1]T
	L []T
	I interface{}
}

func format[T integer](v T) string {
	var z T
	z--
	if z > 0 { // unsigned
		return strconv.FormatUint(uint64(v), 10)
	}
	return strconv.FormatInt(int64(v), 10)
}

type failer struct {
	t     *testing.T
	sub   string
	fails int
}

func (f *failer) fail(c any, format string, args ...any) {
	f.fails++
	if f.fails <= 1 {
		f.t.Error(rt.Fail(prop, f.sub, c, format, args...))
	}
}

// ---- encoding

type wrapped[T integer] struct{ V T }

func encodeBatch[T integer](f *failer, kind string, vals []T) {
	if len(vals) == 0 {
		return
	}
	if kind == "uint8" { // []uint8 is a byte slice (base64): batch through []struct{V uint8} instead
		ws := make([]wrapped[T], len(vals))
		var sb strings.Builder
		sb.WriteByte('[')
		for i, v := range vals {
			ws[i].V = v
			if i > 0 {
				sb.WriteByte(',')
			}
			sb.WriteString(`{"V":` + format(v) + `}`)
		}
		sb.WriteByte(']')
		got, err := gojson.Marshal(ws)
		rt.Count("cases/"+f.sub, int64(len(vals)))
		if err != nil || string(got) != sb.String() {
			f.fail(map[string]any{"dir": "encode", "kind": kind, "first": format(vals[0]), "n": len(vals)}, "Marshal([]struct{V uint8}) differs from the strconv rendering (err=%v): %s", err, got)
		}
		return
	}
	rt.JournalS(f.sub, fmt.Sprintf(`{"dir":"encode","kind":%q,"first":%q,"n":%d}`, kind, format(vals[0]), len(vals)))
	var sb strings.Builder
	sb.WriteByte('[')
	for i, v := range vals {
		if i > 0 {
			sb.WriteByte(',')
		}
		sb.WriteString(format(v))
	}
	sb.WriteByte(']')
	got, err := gojson.Marshal(vals)
	rt.Count("cases/"+f.sub, int64(len(vals)))
	if err != nil || string(got) != sb.String() {
		// locate the first differing element
		for _, v := range vals {
			g, e := gojson.Marshal(v)
			if e != nil || string(g) != format(v) {
				f.fail(map[string]any{"dir": "encode", "kind": kind, "value": format(v)}, "Marshal(%s(%s)) = %q, err=%v; want %s", kind, format(v), g, e, format(v))
				return
			}
		}
		f.fail(map[string]any{"dir": "encode", "kind": kind, "first": format(vals[0]), "n": len(vals)}, "Marshal([]%s) differs from the strconv rendering (err=%v)", kind, err)
	}
}

func encodePositions[T integer](f *failer, kind string, v T) {
	s := format(v)
	p := pos[T]{A: v, P: &v, O: v, S: v, Q: &v, M: map[T]int{v: 1}, E: [1]T{v}, L: []T{v, v}, I: v}
	var sb strings.Builder
	sb.WriteString(`{"A":` + s + `,"P":` + s)
	if v != 0 {
		sb.WriteString(`,"o":` + s)
	}
	l := `[` + s + `,` + s + `]`
	if kind == "uint8" { // []uint8 is a byte slice
		l = `"` + base64.StdEncoding.EncodeToString([]byte{byte(v), byte(v)}) + `"`
	}
	sb.WriteString(`,"s":"` + s + `","q":"` + s + `","M":{"` + s + `":1},"E":[` + s + `],"L":` + l + `,"I":` + s + `}`)
	rt.JournalS(f.sub, fmt.Sprintf(`{"dir":"encode-positions","kind":%q,"value":%q}`, kind, s))
	rt.Count("cases/"+f.sub, 1)
	for _, indent := range []bool{false, true} {
		var got []byte
		var err error
		if indent {
			got, err = gojson.MarshalIndent(&p, "", " ")
			if err == nil {
				var buf bytes.Buffer
				if stdjson.Compact(&buf, got) == nil {
					got = buf.Bytes()
				}
			}
		} else {
			got, err = gojson.Marshal(p)
		}
		if err != nil || string(got) != sb.String() {
			f.fail(map[string]any{"dir": "encode-positions", "kind": kind, "value": s, "indent": indent}, "positions struct for %s(%s) indent=%v:\n got  %s (err=%v)\n want %s", kind, s, indent, got, err, sb.String())
			return
		}
	}
}

// ---- decoding

type dpos[T integer] struct {
	A T
	P *T
	S T `json:"s,string"`
	M map[T]int
	E [2]T
	L []T
}

// decodeOne checks one literal against the strconv oracle in all positions, buffer and stream.
func decodeOne[T integer](f *failer, kind string, bits int, signed bool, lit string) {
	var want T
	fits := false
	if ref.IsJSONInteger(lit) {
		if signed {
			if v, err := strconv.ParseInt(lit, 10, bits); err == nil {
				want, fits = T(v), true
			}
		} else if !strings.HasPrefix(lit, "-") {
			if v, err := strconv.ParseUint(lit, 10, bits); err == nil {
				want, fits = T(v), true
			}
		} else if lit == "-0" {
			// encoding/json: "-0" into an unsigned destination is an error (ParseUint rejects the sign)
			fits = false
		}
	}
	rt.JournalS(f.sub, fmt.Sprintf(`{"dir":"decode","kind":%q,"lit":%q}`, kind, lit))
	rt.Count("cases/"+f.sub, 1)
	if fits {
		rt.Label("decode-fits")
	} else {
		rt.Label("decode-must-fail")
	}
	check := func(where string, err error, got T, stored bool) bool {
		if fits {
			if err != nil || !stored || got != want {
				f.fail(map[string]any{"dir": "decode", "kind": kind, "lit": lit, "where": where}, "%s: %s literal %s must decode to %s: got %s err=%v", where, kind, lit, format(want), format(got), err)
				return false
			}
			return true
		}
		if err == nil {
			f.fail(map[string]any{"dir": "decode", "kind": kind, "lit": lit, "where": where}, "%s: %s literal %s does not fit / is not a JSON integer but decoding succeeded with %s", where, kind, lit, format(got))
			return false
		}
		return true
	}
	// plain, buffer
	var a T
	err := gojson.Unmarshal([]byte(lit), &a)
	if !check("Unmarshal", err, a, true) {
		return
	}
	// plain, stream (whole and byte-by-byte): a stream may hold several values ("00" is 0 then 0), so
	// the first Decode is compared with encoding/json's Decoder rather than with the single-literal rule
	var sw T
	serr := stdjson.NewDecoder(strings.NewReader(lit)).Decode(&sw)
	pieces := make([]int, len(lit))
	for i := range pieces {
		pieces[i] = 1
	}
	for _, mode := range []string{"Decoder", "Decoder(1-byte reads)"} {
		var b T
		if mode == "Decoder" {
			err = gojson.NewDecoder(strings.NewReader(lit)).Decode(&b)
		} else {
			err = gojson.NewDecoder(jsongen.NewChunkReader([]byte(lit), append([]int{}, pieces...))).Decode(&b)
		}
		if (err == nil) != (serr == nil) || (serr == nil && b != sw) {
			if fits || err == nil { // go-json rejecting a stream encoding/json accepts value-by-value (e.g. "1-") is not a conversion error
				f.fail(map[string]any{"dir": "decode", "kind": kind, "lit": lit, "where": mode}, "%s: %s stream %q: go-json %s err=%v, encoding/json %s err=%v", mode, kind, lit, format(b), err, format(sw), serr)
				return
			}
		}
	}
	// positions
	doc := `{"A":` + lit + `,"P":` + lit + `,"s":"` + lit + `","E":[` + lit + `],"L":[` + lit + `,` + lit + `]}`
	for _, stream := range []bool{false, true} {
		var d dpos[T]
		if stream {
			err = gojson.NewDecoder(strings.NewReader(doc)).Decode(&d)
		} else {
			err = gojson.Unmarshal([]byte(doc), &d)
		}
		where := "positions(buffer)"
		if stream {
			where = "positions(stream)"
		}
		ok := err == nil && d.P != nil && d.A == want && *d.P == want && d.S == want && d.E[0] == want && len(d.L) == 2 && d.L[0] == want && d.L[1] == want
		if fits && !ok {
			f.fail(map[string]any{"dir": "decode", "kind": kind, "lit": lit, "where": where}, "%s: %s literal %s must decode to %s in every position: err=%v got %+v", where, kind, lit, format(want), err, d)
			return
		}
		if !fits && err == nil {
			f.fail(map[string]any{"dir": "decode", "kind": kind, "lit": lit, "where": where}, "%s: %s literal %s must be rejected, got %+v", where, kind, lit, d)
			return
		}
	}
	// each position alone must fail for a bad literal (so that one strict position cannot hide a lenient one)
	if !fits {
		for _, one := range []string{`{"A":` + lit + `}`, `{"P":` + lit + `}`, `{"s":"` + lit + `"}`, `{"E":[` + lit + `]}`, `{"L":[` + lit + `]}`} {
			var d dpos[T]
			if err := gojson.Unmarshal([]byte(one), &d); err == nil {
				f.fail(map[string]any{"dir": "decode", "kind": kind, "lit": lit, "where": one}, "Unmarshal(%s) into %s positions must fail, got %+v", one, kind, d)
				return
			}
			var d2 dpos[T]
			if err := gojson.NewDecoder(strings.NewReader(one)).Decode(&d2); err == nil {
				f.fail(map[string]any{"dir": "decode", "kind": kind, "lit": lit, "where": "stream " + one}, "Decoder(%s) into %s positions must fail, got %+v", one, kind, d2)
				return
			}
		}
	}
	// map key: canonical decimal spellings only (encoding/json parses keys with strconv, which also
	// accepts +1 and 01; the statement speaks of JSON integers)
	if ref.IsJSONInteger(lit) && lit != "-0" {
		mdoc := `{"` + lit + `":7}`
		var m map[T]int
		err := gojson.Unmarshal([]byte(mdoc), &m)
		if fits && (err != nil || len(m) != 1 || m[want] != 7) {
			f.fail(map[string]any{"dir": "decode", "kind": kind, "lit": lit, "where": "map key"}, "map key %s for map[%s]int: err=%v m=%v", lit, kind, err, m)
		} else if !fits && err == nil {
			f.fail(map[string]any{"dir": "decode", "kind": kind, "lit": lit, "where": "map key"}, "map key %s does not fit %s but was accepted: %v", lit, kind, m)
		}
	}
}

// literals around the boundaries of a kind, many digit counts, and the malformed integer forms
func literals(bits int, signed bool, window int64, shard, nshards int) []string {
	var out []string
	add := func(s string) { out = append(out, s) }
	centers := []*big.Int{}
	one := big.NewInt(1)
	max := new(big.Int).Sub(new(big.Int).Lsh(one, uint(bits)), one) // 2^bits-1
	smax := new(big.Int).Sub(new(big.Int).Lsh(one, uint(bits-1)), one)
	smin := new(big.Int).Neg(new(big.Int).Lsh(one, uint(bits-1)))
	centers = append(centers, big.NewInt(0), max, smax, smin)
	for k := 1; k <= 20; k++ {
		p := new(big.Int).Exp(big.NewInt(10), big.NewInt(int64(k)), nil)
		centers = append(centers, p, new(big.Int).Neg(p))
	}
	for k := 7; k <= 64; k++ {
		p := new(big.Int).Lsh(one, uint(k))
		centers = append(centers, p, new(big.Int).Neg(p))
	}
	i := 0
	for _, c := range centers {
		for d := -window; d <= window; d++ {
			if i%nshards == shard {
				add(new(big.Int).Add(c, big.NewInt(d)).String())
			}
			i++
		}
	}
	if shard == 0 {
		for digits := 1; digits <= 25; digits++ {
			for _, lead := range []string{"1", "9", "5"} {
				s := lead + strings.Repeat("0", digits-1)
				add(s)
				add("-" + s)
				s9 := strings.Repeat("9", digits)
				add(s9)
				add("-" + s9)
			}
		}
		for _, bad := range []string{"-", "-0", "0", "00", "01", "-01", "1.0", "1.5", "0.0", "-1.0", "1e2", "1E0", "1e0", "+1", "1.", "1e", ".5", "-.5", "0x10", "1_0", "١", "--1", "1-", "1+1", "\"1\"", "1e-1", "10e-1", "123456789012345678901234567890", "-123456789012345678901234567890", "18446744073709551615", "18446744073709551616", "9223372036854775807", "9223372036854775808", "-9223372036854775808", "-9223372036854775809", "0e0", "-0.0", "-0e1"} {
			add(bad)
		}
	}
	_ = signed
	return out
}

func window(q, t int64) int64 {
	if rt.Thorough() {
		return t
	}
	return q
}

func runKind[T integer](t *testing.T, kind string, bits int, signed bool) {
	t.Run(kind, func(t *testing.T) {
		f := &failer{t: t, sub: kind}
		shard, n := rt.E.Shard, rt.E.NShards
		// ---- encode
		var batch []T
		flush := func() {
			encodeBatch(f, kind, batch)
			batch = batch[:0]
		}
		push := func(v T) {
			batch = append(batch, v)
			if len(batch) == 4096 {
				flush()
			}
		}
		exhaustive := false
		switch {
		case bits <= 16 || (bits == 32 && rt.Thorough()):
			exhaustive = true
			total := uint64(1) << uint(bits)
			per := total / uint64(n)
			lo := per * uint64(shard)
			hi := lo + per
			if shard == n-1 {
				hi = total
			}
			for u := lo; u < hi; u++ {
				push(T(u)) // all bit patterns of the width
			}
			rt.NonTrivialDistinct(int64(hi - lo))
		default:
			w := window(1<<12, 1<<16)
			i := 0
			for k := 0; k <= bits; k++ {
				for d := -w; d <= w; d++ {
					if i%n == shard {
						push(T(uint64(1)<<uint(k%64) + uint64(d)))
						push(T(-int64(uint64(1)<<uint(k%64)) + d))
					}
					i++
				}
			}
			p := uint64(1)
			for k := 0; k < 20; k++ {
				for d := -w; d <= w; d++ {
					if i%n == shard {
						push(T(p + uint64(d)))
						push(T(-int64(p) + d))
					}
					i++
				}
				p *= 10
			}
			// pseudo-random fill, deterministic in (seed, shard)
			x := rt.SubSeed(kind) | 1
			for j := 0; j < int(window(1<<16, 1<<21)); j++ {
				x ^= x << 13
				x ^= x >> 7
				x ^= x << 17
				push(T(x))
			}
			rt.NonTrivialDistinct(int64(i/n) * 2)
		}
		flush()
		if exhaustive {
			rt.Exhaustive("encode: all values of " + kind)
		}
		// positions: boundary values of the kind
		var z T
		z--
		vals := []T{0, 1, z, z - 1, T(uint64(1) << uint(bits-1)), T(uint64(1)<<uint(bits-1)) - 1}
		for _, x := range []uint64{9, 10, 99, 100, 999, 1000, 9999, 10000, 12345, math.MaxInt8, 99999, 100000, 999999999, 1000000000, 9999999999, 10000000000} {
			vals = append(vals, T(x), -T(x))
		}
		for k := 0; k < bits; k++ {
			vals = append(vals, T(uint64(1)<<uint(k)), T(uint64(1)<<uint(k))-1, -T(uint64(1)<<uint(k)))
		}
		for i, v := range vals {
			if i%n == shard {
				encodePositions(f, kind, v)
			}
		}
		// ---- decode
		lits := literals(bits, signed, window(1<<9, 1<<14), shard, n)
		for _, lit := range lits {
			decodeOne[T](f, kind, bits, signed, lit)
		}
		rt.NonTrivialDistinct(int64(len(lits)))
		rt.LabelN("decode-literals", int64(len(lits)))
		if f.fails == 0 && rt.WantSample(kind) {
			rt.Sample(kind, map[string]any{"kind": kind, "decode_literals_first": lits[:min(4, len(lits))], "encode_exhaustive": exhaustive})
		}
	})
}

func TestCheck(t *testing.T) {
	runKind[int8](t, "int8", 8, true)
	runKind[uint8](t, "uint8", 8, false)
	runKind[int16](t, "int16", 16, true)
	runKind[uint16](t, "uint16", 16, false)
	runKind[int32](t, "int32", 32, true)
	runKind[uint32](t, "uint32", 32, false)
	runKind[int64](t, "int64", 64, true)
	runKind[uint64](t, "uint64", 64, false)
	runKind[int](t, "int", 64, true)
	runKind[uint](t, "uint", 64, false)
	runKind[uintptr](t, "uintptr", 64, false)
}

func TestReplay(t *testing.T) {
	fl, err := rt.LoadReplay()
	if err != nil {
		t.Fatal(err)
	}
	var c struct {
		Dir, Kind, Lit, Value string
	}
	if err := stdjson.Unmarshal(fl.Case, &c); err != nil {
		t.Fatal(err)
	}
	f := &failer{t: t, sub: "replay"}
	run := func(enc func(), dec func()) {
		if strings.HasPrefix(c.Dir, "encode") {
			enc()
		} else {
			dec()
		}
	}
	u, _ := strconv.ParseUint(c.Value, 10, 64)
	i, _ := strconv.ParseInt(c.Value, 10, 64)
	switch c.Kind {
	case "int8":
		run(func() { encodeBatch(f, c.Kind, []int8{int8(i)}); encodePositions(f, c.Kind, int8(i)) }, func() { decodeOne[int8](f, c.Kind, 8, true, c.Lit) })
	case "uint8":
		run(func() { encodeBatch(f, c.Kind, []uint8{uint8(u)}); encodePositions(f, c.Kind, uint8(u)) }, func() { decodeOne[uint8](f, c.Kind, 8, false, c.Lit) })
	case "int16":
		run(func() { encodeBatch(f, c.Kind, []int16{int16(i)}); encodePositions(f, c.Kind, int16(i)) }, func() { decodeOne[int16](f, c.Kind, 16, true, c.Lit) })
	case "uint16":
		run(func() { encodeBatch(f, c.Kind, []uint16{uint16(u)}); encodePositions(f, c.Kind, uint16(u)) }, func() { decodeOne[uint16](f, c.Kind, 16, false, c.Lit) })
	case "int32":
		run(func() { encodeBatch(f, c.Kind, []int32{int32(i)}); encodePositions(f, c.Kind, int32(i)) }, func() { decodeOne[int32](f, c.Kind, 32, true, c.Lit) })
	case "uint32":
		run(func() { encodeBatch(f, c.Kind, []uint32{uint32(u)}); encodePositions(f, c.Kind, uint32(u)) }, func() { decodeOne[uint32](f, c.Kind, 32, false, c.Lit) })
	case "int64":
		run(func() { encodeBatch(f, c.Kind, []int64{i}); encodePositions(f, c.Kind, i) }, func() { decodeOne[int64](f, c.Kind, 64, true, c.Lit) })
	case "uint64":
		run(func() { encodeBatch(f, c.Kind, []uint64{u}); encodePositions(f, c.Kind, u) }, func() { decodeOne[uint64](f, c.Kind, 64, false, c.Lit) })
	case "int":
		run(func() { encodeBatch(f, c.Kind, []int{int(i)}); encodePositions(f, c.Kind, int(i)) }, func() { decodeOne[int](f, c.Kind, 64, true, c.Lit) })
	case "uint":
		run(func() { encodeBatch(f, c.Kind, []uint{uint(u)}); encodePositions(f, c.Kind, uint(u)) }, func() { decodeOne[uint](f, c.Kind, 64, false, c.Lit) })
	case "uintptr":
		run(func() { encodeBatch(f, c.Kind, []uintptr{uintptr(u)}); encodePositions(f, c.Kind, uintptr(u)) }, func() { decodeOne[uintptr](f, c.Kind, 64, false, c.Lit) })
	default:
		t.Fatalf("unknown kind %q", c.Kind)
	}
}

func TestWitness(t *testing.T) {
	known.RunWitness()
}
