package c07

import (
	"bytes"
	stdjson "encoding/json"
	"fmt"
	"os"
	"reflect"
	"runtime"
	"testing"
	"unsafe"

	gojson "github.com/goccy/go-json"
	"pgregory.net/rapid"

	_ "verif/harness/dec"
	"verif/harness/enc"
	"verif/harness/gen"
	"verif/harness/jsongen"
	"verif/harness/known"
	"verif/harness/ref"
	"verif/harness/rt"
)

const prop = "C07"

var forceGC = os.Getenv("VERIF_FORCE_GC") != ""

func TestMain(m *testing.M) {
	code := m.Run()
	rt.Flush()
	os.Exit(code)
}

type Case struct {
	Spec   *gen.TypeSpec `json:"spec"`
	Type   string        `json:"type"`
	Doc    string        `json:"doc"`
	Recipe gen.Recipe    `json:"recipe"`
	Entry  string        `json:"entry"` // unmarshal | decoder | decoder-chunked
	Pieces []int         `json:"pieces,omitempty"`
	Active []string      `json:"active"`
}

// element types of sizes 1..64 bytes for arrays and slices
var elemSpecs = []*gen.TypeSpec{
	{K: "uint8"}, {K: "bool"}, {K: "int16"}, {K: "uint16"}, {K: "array", N: 3, Elem: &gen.TypeSpec{K: "uint8"}}, {K: "int32"}, {K: "float32"},
	{K: "array", N: 5, Elem: &gen.TypeSpec{K: "uint8"}}, {K: "array", N: 3, Elem: &gen.TypeSpec{K: "uint16"}}, {K: "int64"}, {K: "float64"}, {K: "ptr", Elem: &gen.TypeSpec{K: "int"}},
	{K: "struct", Fields: []gen.FieldSpec{{Name: "A", T: &gen.TypeSpec{K: "uint8"}}, {Name: "B", T: &gen.TypeSpec{K: "uint16"}}}},
	{K: "array", N: 3, Elem: &gen.TypeSpec{K: "uint32"}}, {K: "string"}, {K: "iface"}, {K: "bytes"}, {K: "slice", Elem: &gen.TypeSpec{K: "int8"}},
	{K: "struct", Fields: []gen.FieldSpec{{Name: "S", T: &gen.TypeSpec{K: "string"}}, {Name: "N", T: &gen.TypeSpec{K: "int8"}}}},
	{K: "array", N: 2, Elem: &gen.TypeSpec{K: "string"}}, {K: "array", N: 8, Elem: &gen.TypeSpec{K: "int64"}}, {K: "map", Key: &gen.TypeSpec{K: "string"}, Elem: &gen.TypeSpec{K: "int"}},
	{K: "leaf:NStruct"}, {K: "leaf:KeyMT"}, {K: "leaf:IntUT"}, {K: "number"}, {K: "raw"},
}

func typeCfg() gen.TypeCfg {
	c := gen.DefaultTypeCfg()
	c.Leaves = append(append(append([]string{}, gen.PlainLeaves...), gen.UnmarshalLeaves...), "EmbA", "EmbB", "EmbC", "KeyMT")
	c.KeyKinds = append(append([]string{}, gen.DefaultKeyKinds...), "leaf:KeyMT")
	c.Wide = true
	c.MaxDepth = 3
	return c
}

func clone(s *gen.TypeSpec) *gen.TypeSpec {
	b, _ := stdjson.Marshal(s)
	var o gen.TypeSpec
	stdjson.Unmarshal(b, &o)
	return &o
}

func genSpec(t *rapid.T) *gen.TypeSpec {
	switch rapid.IntRange(0, 5).Draw(t, "shape") {
	case 0, 1: // array of a sized element
		e := clone(rapid.SampledFrom(elemSpecs).Draw(t, "elem"))
		return &gen.TypeSpec{K: "array", N: rapid.IntRange(1, 5).Draw(t, "n"), Elem: e}
	case 2: // struct of small fields with arrays between them
		s := &gen.TypeSpec{K: "struct"}
		n := rapid.IntRange(2, 6).Draw(t, "nf")
		if rapid.IntRange(0, 2).Draw(t, "widestruct") == 0 { // 9..16 names: the 16-bit bitmap key matcher
			n = rapid.IntRange(9, 16).Draw(t, "nfwide")
		}
		for i := 0; i < n; i++ {
			e := clone(rapid.SampledFrom(elemSpecs).Draw(t, "felem"))
			if rapid.IntRange(0, 2).Draw(t, "asarray") == 0 {
				e = &gen.TypeSpec{K: "array", N: rapid.IntRange(1, 4).Draw(t, "fn"), Elem: e}
			}
			s.Fields = append(s.Fields, gen.FieldSpec{Name: fmt.Sprintf("F%d", i), T: e})
		}
		return s
	case 3: // slice of a sized element
		return &gen.TypeSpec{K: "slice", Elem: clone(rapid.SampledFrom(elemSpecs).Draw(t, "selem"))}
	}
	return gen.GenType(t, typeCfg())
}

const canary = 0xA5
const canaryLen = 64

func outerType(typ reflect.Type) reflect.Type {
	c := reflect.TypeOf([canaryLen]byte{})
	return reflect.StructOf([]reflect.StructField{
		{Name: "Pre", Type: c}, {Name: "V", Type: typ}, {Name: "Mid", Type: c}, {Name: "W", Type: typ}, {Name: "Post", Type: c},
	})
}

func rawBytes(v reflect.Value) []byte {
	n := int(v.Type().Size())
	if n == 0 {
		return nil
	}
	return append([]byte(nil), unsafe.Slice((*byte)(unsafe.Pointer(v.UnsafeAddr())), n)...)
}

func TestCheck(t *testing.T) {
	n := rt.PerShard(rt.N(150000, 3000000))
	if forceGC {
		n = n/25 + 1 // two full collections per case
	}
	rt.Rapid(t, "canary", n, func(t *rapid.T) {
		spec := genSpec(t)
		known.RepairDecSpec(spec)
		typ := enc.SafeType(spec)
		if typ == nil {
			t.Skip("reflect refuses the shape")
		}
		c := &Case{Spec: spec, Type: spec.String(), Active: rt.ActiveList()}
		tc := jsongen.DefaultTyped
		tc.WrongKind = 40
		tc.CaseKeys = false
		if rapid.IntRange(0, 4).Draw(t, "free") == 0 {
			cfg := jsongen.DefaultCfg
			c.Doc = string(jsongen.Gen(t, cfg).Render())
		} else {
			c.Doc = string(jsongen.Typed(t, spec, tc))
		}
		if rapid.IntRange(0, 7).Draw(t, "truncate") == 0 && len(c.Doc) > 1 { // an invalid document that fails after some stores
			c.Doc = c.Doc[:rapid.IntRange(1, len(c.Doc)-1).Draw(t, "cut")]
		}
		_, c.Recipe = gen.Draw(t, typ, gen.ValCfg{ValidUTF8: true})
		c.Entry = rapid.SampledFrom([]string{"unmarshal", "unmarshal", "decoder", "decoder-chunked"}).Draw(t, "entry")
		if c.Entry == "decoder-chunked" {
			c.Pieces = jsongen.Chunks(t, len(c.Doc))
		}
		if msg := runCase(c, typ); msg != "" {
			t.Fatalf("%s", msg)
		}
	})
}

func fillCanary(v reflect.Value) {
	b := unsafe.Slice((*byte)(unsafe.Pointer(v.UnsafeAddr())), canaryLen)
	for i := range b {
		b[i] = canary
	}
}

func runCase(c *Case, typ reflect.Type) string {
	const sub = "canary"
	doc := []byte(c.Doc)
	ot := outerType(typ)
	outer := reflect.New(ot).Elem()
	for _, i := range []int{0, 2, 4} {
		fillCanary(outer.Field(i))
	}
	cfg := gen.ValCfg{ValidUTF8: true}
	outer.Field(1).Set(gen.Rebuild(typ, c.Recipe, cfg))
	outer.Field(3).Set(gen.Rebuild(typ, c.Recipe, cfg))
	third := gen.Rebuild(typ, c.Recipe, cfg) // what W must still equal afterwards
	stdDst := reflect.New(typ)
	stdDst.Elem().Set(gen.Rebuild(typ, c.Recipe, cfg))
	wRaw := rawBytes(outer.Field(3))

	// oracle run (encoding/json on an identical initial value)
	var werr error
	if c.Entry == "unmarshal" {
		werr = stdjson.Unmarshal(doc, stdDst.Interface())
	} else {
		werr = stdjson.NewDecoder(bytes.NewReader(doc)).Decode(stdDst.Interface())
	}

	rt.Journal(sub, func() string { x, _ := stdjson.Marshal(c); return string(x) })
	rt.Count("cases/"+sub, 1)
	vptr := outer.Field(1).Addr().Interface()
	// the caller's input slice has spare capacity (filled with the canary): neither the bytes nor the
	// spare room belong to the decoder
	input := make([]byte, len(doc), len(doc)+24)
	copy(input, doc)
	spare := input[len(doc):cap(input)]
	for i := range spare {
		spare[i] = canary
	}
	var gerr error
	pv := rt.Guard(func() {
		switch c.Entry {
		case "unmarshal":
			gerr = gojson.Unmarshal(input, vptr)
		case "decoder":
			gerr = gojson.NewDecoder(bytes.NewReader(doc)).Decode(vptr)
		default:
			gerr = gojson.NewDecoder(jsongen.NewChunkReader(doc, append([]int{}, c.Pieces...))).Decode(vptr)
		}
	})
	fail := func(format string, args ...any) string {
		return rt.Fail(prop, sub, c, "%s\n type %s\n doc %s\n entry %s\n initial value %s", fmt.Sprintf(format, args...), c.Type, clip(c.Doc), c.Entry, clip(gen.Render(third)))
	}
	if pv != nil {
		return fail("decode panicked: %v", pv)
	}
	// (0) the caller's input and the spare capacity behind it are untouched
	if !bytes.Equal(input, doc) {
		return fail("the input bytes were modified by the call: % x", input)
	}
	for k, x := range spare {
		if x != canary {
			return fail("the spare capacity of the caller's input slice was written at +%d: % x", k, spare)
		}
	}
	// (1) canaries and the sibling W are untouched
	for _, i := range []int{0, 2, 4} {
		b := rawBytes(outer.Field(i))
		for k, x := range b {
			if x != canary {
				return fail("canary %s corrupted at byte %d: % x", ot.Field(i).Name, k, b)
			}
		}
	}
	if !bytes.Equal(rawBytes(outer.Field(3)), wRaw) {
		return fail("the sibling value W (not addressed by the call) changed in memory")
	}
	// (3) V is a well-formed Go value whatever happened: walk everything, then collect garbage
	var rendered string
	if pv := rt.Guard(func() {
		rendered = gen.Render(outer.Field(1))
		if forceGC {
			runtime.GC()
			runtime.GC()
		}
		if !reflect.DeepEqual(outer.Field(3).Interface(), third.Interface()) {
			rendered = "W!"
		}
	}); pv != nil {
		return fail("the destination is not a well-formed value after the call (err=%v): walking it panicked: %v", gerr, pv)
	}
	if rendered == "W!" {
		return fail("the sibling value W is no longer deeply equal to its initial value")
	}
	// (2) on success V equals what encoding/json produces from the same initial value
	if werr == nil && gerr == nil {
		if want := gen.Render(stdDst.Elem()); want != rendered {
			if id := known.DecExpect(c.Spec, doc, c.Entry, true); id != "" {
				rt.KnownHit(id)
				return ""
			}
			return fail("destination differs from encoding/json's\n go-json:       %s\n encoding/json: %s", clip(rendered), clip(want))
		}
	}
	rt.Label("entry=" + c.Entry)
	switch {
	case gerr == nil:
		rt.Label("success")
	default:
		rt.Label("error")
	}
	if ref.Valid(doc) {
		if toks, _ := ref.Tokens(doc); len(toks) >= 3 {
			rt.NonTrivial(rt.Hash64(c.Type, c.Doc, fmt.Sprint(c.Recipe), c.Entry))
		}
	} else if gerr != nil && rendered != gen.Render(third) {
		rt.Label("failed-after-partial-store")
		rt.NonTrivial(rt.Hash64(c.Type, c.Doc, fmt.Sprint(c.Recipe), c.Entry))
	}
	if rt.WantSample(sub) {
		rt.Sample(sub, map[string]any{"type": c.Type, "doc": clip(c.Doc), "entry": c.Entry, "err": fmt.Sprint(gerr)})
	} else {
		rt.Sample(sub, nil)
	}
	return ""
}

func clip(s string) string {
	if len(s) > 400 {
		return s[:400] + "…"
	}
	return s
}

func TestReplay(t *testing.T) {
	f, err := rt.LoadReplay()
	if err != nil {
		t.Fatal(err)
	}
	var c Case
	if err := stdjson.Unmarshal(f.Case, &c); err != nil {
		t.Fatal(err)
	}
	rt.SetActive(c.Active)
	typ := enc.SafeType(c.Spec)
	if typ == nil {
		t.Fatal("cannot realise type")
	}
	if msg := runCase(&c, typ); msg != "" {
		t.Fatal(msg)
	}
}

func TestWitness(t *testing.T) {
	known.RunWitness()
}
