package c12

import (
	"bytes"
	"context"
	stdjson "encoding/json"
	"fmt"
	"os"
	"reflect"
	"runtime"
	"strings"
	"testing"

	gojson "github.com/goccy/go-json"
	"pgregory.net/rapid"

	_ "verif/harness/dec"
	"verif/harness/gen"
	"verif/harness/jsongen"
	"verif/harness/known"
	"verif/harness/rt"
)

const prop = "C12"

func TestMain(m *testing.M) {
	code := m.Run()
	rt.Flush()
	os.Exit(code)
}

// retaining unmarshalers: they keep the very slice they were handed
type KeepUJ struct{ B []byte }

func (k *KeepUJ) UnmarshalJSON(b []byte) error { k.B = b; return nil }

type KeepUT struct{ B []byte }

func (k *KeepUT) UnmarshalText(b []byte) error { k.B = b; return nil }

type Dest struct {
	S  string
	B  []byte
	R  stdjson.RawMessage
	N  stdjson.Number
	I  interface{}
	U  KeepUJ
	T  KeepUT
	M  map[string]string
	L  []string
	PS *string
	A  [2]string
	K  map[string]interface{}
	NS gen.NStr
	SS string `json:"ss,string"`
}

var destTypes = []reflect.Type{reflect.TypeOf(Dest{}), reflect.TypeOf((*interface{})(nil)).Elem(), reflect.TypeOf(map[string]stdjson.RawMessage(nil)), reflect.TypeOf([]KeepUJ(nil)), reflect.TypeOf("")}

// a history step, recorded for the replay file
type Step struct {
	Op   string `json:"op"`
	Arg  string `json:"arg,omitempty"`
	Arg2 int    `json:"arg2,omitempty"`
	Arg3 int    `json:"arg3,omitempty"`
}

type held struct {
	val  reflect.Value // decoded destination (pointer)
	snap string        // deep rendering taken right after decoding
	what string
}

type output struct {
	b         []byte
	snap      []byte
	val       interface{} // the value that was marshalled (immutable afterwards)
	scribbled bool
	what      string
}

type input struct {
	full []byte // the whole backing array (len == cap), caller-owned
	n    int    // length of the document
	snap []byte
}

type state struct {
	steps   []Step
	held    []held
	outs    []output
	ins     []input
	dec     *gojson.Decoder
	decIn   []byte
	decSnap []byte
}

// subMJ's MarshalJSON hands out a piece of memory its owner keeps using (a cached encoding inside a larger buffer).
type subMJ struct{ b []byte }

func (s subMJ) MarshalJSON() ([]byte, error) { return s.b, nil }

func render(v reflect.Value) string { return gen.Render(v) }

// docFor builds a document for destination type index k from drawn parts.
func docFor(t *rapid.T, k int) []byte {
	str := func() string { return jsongen.StringLit(t, jsongen.DefaultCfg) }
	switch k {
	case 0:
		var sb strings.Builder
		sb.WriteString(`{"S":` + str() + `,"B":"aGVsbG8gd29ybGQ=","R":` + string(jsongen.Gen(t, jsongen.Cfg{MaxDepth: 2, MaxElems: 3, Whitespace: true, Exotic: true}).Render()))
		sb.WriteString(`,"N":` + jsongen.Number(t, jsongen.DefaultCfg) + `,"I":` + string(jsongen.Gen(t, jsongen.Cfg{MaxDepth: 2, MaxElems: 3, Exotic: true}).Render()))
		sb.WriteString(`,"U":` + string(jsongen.Gen(t, jsongen.Cfg{MaxDepth: 2, MaxElems: 2, Whitespace: true, Exotic: true}).Render()) + `,"T":` + str())
		sb.WriteString(`,"M":{` + str() + `:` + str() + `,"k2":` + str() + `},"L":[` + str() + `,` + str() + `],"PS":` + str() + `,"A":[` + str() + `,` + str() + `]`)
		sb.WriteString(`,"K":{"x":` + str() + `,"y":[` + str() + `]},"NS":` + str() + `,"ss":` + fmt.Sprintf("%q", str()) + `}`)
		return []byte(sb.String())
	case 1:
		return jsongen.Gen(t, jsongen.DefaultCfg).Render()
	case 2:
		return []byte(`{"a":` + string(jsongen.Gen(t, jsongen.DefaultCfg).Render()) + `,` + str() + `: [1, {"z":` + str() + `}] }`)
	case 3:
		return []byte(`[` + string(jsongen.Gen(t, jsongen.DefaultCfg).Render()) + `, ` + str() + `,{"q":` + str() + `}]`)
	}
	return []byte(str())
}

type rec struct {
	ID   int      `json:"id"`
	Name string   `json:"name"`
	Tags []string `json:"tags"`
}

// big returns a value whose encoding is roughly n bytes.
func big(n int, salt int) interface{} {
	if n < 64 {
		return map[string]interface{}{"s": strings.Repeat("x", n), "n": salt}
	}
	k := n / 48
	l := make([]rec, 0, k)
	for i := 0; i < k; i++ {
		l = append(l, rec{ID: i + salt, Name: fmt.Sprintf("name-%d<&>", i*salt), Tags: []string{"a", "b\n"}})
	}
	return l
}

var sizes = []int{1, 20, 20, 300, 300, 300, 4000, 4000, 4000, 60000, 70000, 70000, 66000, 200000}

func drawSize(t *rapid.T) int {
	if rapid.IntRange(0, 99).Draw(t, "huge") == 0 {
		return 1000000
	}
	return rapid.SampledFrom(sizes).Draw(t, "size")
}

func TestCheck(t *testing.T) {
	n := rt.PerShard(rt.N(3000, 120000))
	rt.Rapid(t, "histories", n, func(t *rapid.T) {
		st := &state{}
		fail := ""
		failf := func(format string, args ...any) {
			if fail == "" {
				fail = fmt.Sprintf(format, args...)
			}
		}
		record := func(s Step) { st.steps = append(st.steps, s) }
		// the invariant, checked after every step
		check := func(after string) {
			for i, h := range st.held {
				if got := render(h.val.Elem()); got != h.snap {
					failf("after %s: value #%d decoded earlier (%s) changed\n was %s\n now %s", after, i, h.what, clip(h.snap), clip(got))
				}
			}
			for i, o := range st.outs {
				if !o.scribbled && !bytes.Equal(o.b, o.snap) {
					failf("after %s: Marshal result #%d (%s) changed although the caller did not touch it\n was %q\n now %q", after, i, o.what, clip(string(o.snap)), clip(string(o.b)))
				}
			}
			for i, in := range st.ins {
				if in.snap != nil && !bytes.Equal(in.full, in.snap) {
					failf("after %s: the caller's input buffer #%d (including its spare capacity) was modified\n was %q\n now %q", after, i, clip(string(in.snap)), clip(string(in.full)))
				}
			}
			if st.decSnap != nil && !bytes.Equal(st.decIn, st.decSnap) {
				failf("after %s: the bytes behind the Decoder's reader were modified", after)
			}
		}
		t.Repeat(map[string]func(*rapid.T){
			"unmarshal": func(t *rapid.T) {
				k := rapid.IntRange(0, len(destTypes)-1).Draw(t, "dest")
				doc := docFor(t, k)
				spare := rapid.SampledFrom([]int{0, 1, 2, 7, 64}).Draw(t, "spare")
				full := make([]byte, len(doc)+spare)
				copy(full, doc)
				for i := len(doc); i < len(full); i++ {
					full[i] = 0xEE
				}
				in := input{full: full, n: len(doc), snap: append([]byte(nil), full...)}
				dst := reflect.New(destTypes[k])
				entry := rapid.SampledFrom([]string{"Unmarshal", "UnmarshalWithOption", "UnmarshalContext"}).Draw(t, "entry")
				record(Step{Op: "unmarshal:" + entry, Arg: string(doc), Arg2: k, Arg3: spare})
				rt.Journal("histories", func() string { x, _ := stdjson.Marshal(st.steps); return string(x) })
				var err error
				if pv := rt.Guard(func() {
					switch entry {
					case "Unmarshal":
						err = gojson.Unmarshal(full[:len(doc)], dst.Interface())
					case "UnmarshalWithOption":
						err = gojson.UnmarshalWithOption(full[:len(doc)], dst.Interface())
					default:
						err = gojson.UnmarshalContext(context.Background(), full[:len(doc)], dst.Interface())
					}
				}); pv != nil {
					failf("%s panicked: %v", entry, pv)
					return
				}
				st.ins = append(st.ins, in)
				if err == nil {
					st.held = append(st.held, held{val: dst, snap: render(dst.Elem()), what: entry + " of " + clip(string(doc))})
				}
				check("unmarshal")
			},
			// decoding into a slice the caller already owns (elements present, spare capacity): the array stays
			// the caller's, whatever the decoder does with its pooled scratch arrays afterwards
			"unmarshal-prepop": func(t *rapid.T) {
				kind := rapid.IntRange(0, 3).Draw(t, "kind")
				pre := rapid.IntRange(1, 3).Draw(t, "pre")
				room := rapid.IntRange(1, 12).Draw(t, "room")
				n := rapid.IntRange(1, pre+room).Draw(t, "elems")
				var elemT reflect.Type
				var parts []string
				for i := 0; i < n; i++ {
					switch kind {
					case 0:
						parts = append(parts, jsongen.StringLit(t, jsongen.DefaultCfg))
					case 1, 3:
						parts = append(parts, string(jsongen.Gen(t, jsongen.Cfg{MaxDepth: 2, MaxElems: 3, Exotic: true}).Render()))
					default:
						parts = append(parts, `"aGVsbG8gd29ybGQ="`)
					}
				}
				switch kind {
				case 0:
					elemT = reflect.TypeOf("")
				case 1:
					elemT = reflect.TypeOf(stdjson.RawMessage(nil))
				case 2:
					elemT = reflect.TypeOf([]byte(nil))
				default:
					elemT = reflect.TypeOf((*interface{})(nil)).Elem()
				}
				doc := []byte("[" + strings.Join(parts, ", ") + "]")
				dst := reflect.New(reflect.SliceOf(elemT))
				sl := reflect.MakeSlice(reflect.SliceOf(elemT), pre, pre+room)
				for i := 0; i < pre; i++ {
					switch kind {
					case 0:
						sl.Index(i).SetString(fmt.Sprintf("caller-%d", i))
					case 1, 2:
						sl.Index(i).SetBytes([]byte(fmt.Sprintf(`"caller-%d"`, i)))
					default:
						sl.Index(i).Set(reflect.ValueOf(fmt.Sprintf("caller-%d", i)))
					}
				}
				dst.Elem().Set(sl)
				via := rapid.SampledFrom([]string{"Unmarshal", "Decoder"}).Draw(t, "via")
				record(Step{Op: "unmarshal-prepop:" + via, Arg: string(doc), Arg2: kind, Arg3: pre*100 + room})
				rt.Journal("histories", func() string { x, _ := stdjson.Marshal(st.steps); return string(x) })
				var err error
				if pv := rt.Guard(func() {
					if via == "Unmarshal" {
						err = gojson.Unmarshal(doc, dst.Interface())
					} else {
						err = gojson.NewDecoder(bytes.NewReader(doc)).Decode(dst.Interface())
					}
				}); pv != nil {
					failf("%s into a pre-populated slice panicked: %v", via, pv)
					return
				}
				if err == nil {
					st.held = append(st.held, held{val: dst, snap: render(dst.Elem()), what: via + " into a pre-populated slice of " + clip(string(doc))})
					rt.Label("decode into a caller-owned slice with spare capacity")
				}
				check("unmarshal-prepop")
			},
			"decoder-next": func(t *rapid.T) {
				if st.dec == nil {
					var stream []byte
					for i := 0; i < 6; i++ {
						stream = append(append(stream, docFor(t, 0)...), '\n')
					}
					st.decIn = stream
					st.decSnap = append([]byte(nil), stream...)
					st.dec = gojson.NewDecoder(jsongen.NewChunkReader(stream, jsongen.Chunks(t, len(stream))))
					record(Step{Op: "decoder-new", Arg: string(stream)})
				}
				dst := reflect.New(destTypes[0])
				record(Step{Op: "decoder-next"})
				var err error
				if pv := rt.Guard(func() { err = st.dec.Decode(dst.Interface()) }); pv != nil {
					failf("Decode panicked: %v", pv)
					return
				}
				if err == nil {
					st.held = append(st.held, held{val: dst, snap: render(dst.Elem()), what: "Decoder.Decode"})
				}
				check("decoder-next")
			},
			"scribble-input": func(t *rapid.T) {
				if len(st.ins) == 0 {
					t.Skip("no input")
				}
				i := rapid.IntRange(0, len(st.ins)-1).Draw(t, "which")
				record(Step{Op: "scribble-input", Arg2: i})
				for k := range st.ins[i].full {
					st.ins[i].full[k] = 0x5A
				}
				st.ins[i].snap = nil // the caller changed it
				if st.decIn != nil && rapid.Bool().Draw(t, "alsostream") {
					// bytes the Decoder has not read yet must stay: only scribble what was delivered? the reader owns them: leave
				}
				check("scribble-input")
			},
			"marshal": func(t *rapid.T) {
				size := drawSize(t)
				salt := rapid.IntRange(1, 9).Draw(t, "salt")
				entry := rapid.SampledFrom([]string{"Marshal", "Marshal", "MarshalIndent", "MarshalNoEscape", "MarshalWithOption", "MarshalContext"}).Draw(t, "entry")
				record(Step{Op: "marshal:" + entry, Arg2: size, Arg3: salt})
				rt.Journal("histories", func() string { x, _ := stdjson.Marshal(st.steps); return string(x) })
				v := big(size, salt)
				var b []byte
				var err error
				if pv := rt.Guard(func() { b, err = marshal(entry, v) }); pv != nil || err != nil {
					failf("%s panicked/failed: %v %v", entry, pv, err)
					return
				}
				// "later results equal what the same call returns without scribbling": compare with encoding/json
				want, _ := stdMarshal(entry, v)
				if !bytes.Equal(b, want) {
					failf("%s(size %d) returned bytes that differ from encoding/json's (corrupted by earlier calls?)\n got  %q\n want %q", entry, size, clip(string(b)), clip(string(want)))
				}
				st.outs = append(st.outs, output{b: b, snap: append([]byte(nil), b...), val: v, what: fmt.Sprintf("%s size %d", entry, size)})
				check("marshal")
			},
			"marshal-sub": func(t *rapid.T) {
				// members whose bytes are part of memory the caller still uses: a piece of an earlier Marshal result, or a
				// piece of a roomy caller-owned buffer (as RawMessage and as the result of a MarshalJSON method)
				room := []byte(`{"k":[1,2,3],"s":"a<b"}[true,null]"tail"`)
				spare := rapid.SampledFrom([]int{0, 1, 8, 64}).Draw(t, "spare")
				full := make([]byte, len(room)+spare)
				copy(full, room)
				for i := len(room); i < len(full); i++ {
					full[i] = 0xEE
				}
				in := input{full: full, n: len(room), snap: append([]byte(nil), full...)}
				st.ins = append(st.ins, in)
				cuts := [][2]int{{0, 23}, {5, 12}, {23, 34}, {34, 40}, {17, 22}}
				c := cuts[rapid.IntRange(0, len(cuts)-1).Draw(t, "cut")]
				piece := full[c[0]:c[1]]
				which := -1
				if len(st.outs) > 0 && rapid.Bool().Draw(t, "from-output") {
					i := rapid.IntRange(0, len(st.outs)-1).Draw(t, "which")
					if o := st.outs[i]; !o.scribbled && len(o.b) > 2 && o.b[0] == '[' {
						var first stdjson.RawMessage
						d := stdjson.NewDecoder(bytes.NewReader(o.b[1:]))
						if d.Decode(&first) == nil {
							off := 1 + int(d.InputOffset())
							piece, which = o.b[off-len(first):off], i
						}
					}
				}
				entry := rapid.SampledFrom([]string{"Marshal", "Marshal", "MarshalIndent", "MarshalNoEscape", "MarshalContext"}).Draw(t, "entry")
				shape := rapid.IntRange(0, 3).Draw(t, "shape")
				record(Step{Op: "marshal-sub:" + entry, Arg: fmt.Sprintf("cut %v output %d shape %d", c, which, shape), Arg2: spare})
				rt.Journal("histories", func() string { x, _ := stdjson.Marshal(st.steps); return string(x) })
				var v interface{}
				switch shape {
				case 0:
					v = stdjson.RawMessage(piece)
				case 1:
					v = struct {
						A int
						R stdjson.RawMessage
						M map[string]stdjson.RawMessage
					}{1, piece, map[string]stdjson.RawMessage{"m": piece}}
				case 2:
					v = []interface{}{subMJ{piece}, &subMJ{piece}}
				default:
					v = map[string]interface{}{"x": subMJ{piece}, "y": stdjson.RawMessage(piece)}
				}
				var b []byte
				var err error
				if pv := rt.Guard(func() { b, err = marshal(entry, v) }); pv != nil || err != nil {
					failf("%s of sub-slice members panicked/failed: %v %v", entry, pv, err)
					return
				}
				want, _ := stdMarshal(entry, v)
				if !bytes.Equal(b, want) {
					failf("%s of sub-slice members returned bytes that differ from encoding/json's\n got  %q\n want %q", entry, clip(string(b)), clip(string(want)))
				}
				st.outs = append(st.outs, output{b: b, snap: append([]byte(nil), b...), val: v, what: entry + " of sub-slice members"})
				check("marshal-sub")
			},
			"scribble-output": func(t *rapid.T) {
				if len(st.outs) == 0 {
					t.Skip("no output")
				}
				i := rapid.IntRange(0, len(st.outs)-1).Draw(t, "which")
				record(Step{Op: "scribble-output", Arg2: i})
				o := &st.outs[i]
				full := o.b[:cap(o.b)]
				for k := range full {
					full[k] = 0x5A
				}
				o.scribbled = true
				check("scribble-output")
			},
			"churn": func(t *rapid.T) {
				size := drawSize(t)
				record(Step{Op: "churn", Arg2: size})
				v := big(size, 3)
				rt.Guard(func() {
					b, _ := gojson.Marshal(v)
					var x interface{}
					gojson.Unmarshal(b, &x)
					var buf bytes.Buffer
					gojson.Compact(&buf, b)
					gojson.Indent(&buf, b, "", " ")
					if size <= 70000 { // the stream decoder is quadratic in the number of escapes: keep it off the huge documents
						gojson.NewDecoder(bytes.NewReader(b)).Decode(&x)
					}
					gojson.MarshalIndent(v, "", "  ")
					if size <= 70000 {
						gojson.Valid(b)
					}
				})
				check("churn")
			},
			"gc": func(t *rapid.T) {
				record(Step{Op: "gc"})
				runtime.GC()
				check("gc")
			},
		})
		nt := 0
		for _, s := range st.steps {
			if strings.HasPrefix(s.Op, "scribble") {
				nt++
			}
		}
		rt.Count("cases/histories", 1)
		rt.Count("steps", int64(len(st.steps)))
		if nt > 0 && len(st.steps) >= 4 {
			rt.NonTrivial(rt.Hash64(fmt.Sprint(st.steps)))
			rt.Label("history-with-mutation")
		}
		if rt.WantSample("histories") {
			ops := []string{}
			for _, s := range st.steps {
				ops = append(ops, s.Op)
			}
			rt.Sample("histories", map[string]any{"ops": ops})
		} else {
			rt.Sample("histories", nil)
		}
		if fail != "" {
			t.Fatalf("%s", rt.Fail(prop, "histories", map[string]any{"steps": st.steps}, "%s\n history: %d steps", fail, len(st.steps)))
		}
	})
}

func marshal(entry string, v interface{}) ([]byte, error) {
	switch entry {
	case "MarshalIndent":
		return gojson.MarshalIndent(v, "", " ")
	case "MarshalNoEscape":
		return gojson.MarshalNoEscape(v)
	case "MarshalWithOption":
		return gojson.MarshalWithOption(v)
	case "MarshalContext":
		return gojson.MarshalContext(context.Background(), v)
	}
	return gojson.Marshal(v)
}

func stdMarshal(entry string, v interface{}) ([]byte, error) {
	if entry == "MarshalIndent" {
		return stdjson.MarshalIndent(v, "", " ")
	}
	return stdjson.Marshal(v)
}

func clip(s string) string {
	if len(s) > 300 {
		return s[:300] + "…"
	}
	return s
}

func TestReplay(t *testing.T) {
	t.Skip("histories are replayed by re-running the check with the seed recorded in the evidence; the replay file documents the shrunk history")
}

func TestWitness(t *testing.T) {
	known.RunWitness()
}
