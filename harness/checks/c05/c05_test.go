package c05

import (
	"bytes"
	"encoding/hex"
	stdjson "encoding/json"
	"fmt"
	"io"
	"os"
	"sort"
	"strconv"
	"strings"
	"testing"

	gojson "github.com/goccy/go-json"
	"pgregory.net/rapid"

	_ "verif/harness/dec"
	"verif/harness/jsongen"
	"verif/harness/known"
	"verif/harness/ref"
	"verif/harness/rt"
)

const prop = "C05"

func TestMain(m *testing.M) {
	code := m.Run()
	rt.Flush()
	os.Exit(code)
}

// ---------------------------------------------------------------------------------------------
// entries

type verdict struct {
	ok    bool   // accepted
	vec   string // decoder verdict vector (decoder entry only)
	panic any
}

func goValid(b []byte) (v verdict) {
	v.panic = rt.Guard(func() { v.ok = gojson.Valid(b) })
	return
}

func goUnmarshal(b []byte) (v verdict) {
	v.panic = rt.Guard(func() {
		var x interface{}
		v.ok = gojson.Unmarshal(b, &x) == nil
	})
	return
}

func stdUnmarshal(b []byte) bool {
	var x interface{}
	return stdjson.Unmarshal(b, &x) == nil
}

type decoderLike interface {
	Decode(interface{}) error
}

// drain decodes values until the first non-success and returns "<n>E" (ended with io.EOF) or "<n>X"
// (ended with another error).
func drain(d decoderLike, limit int) string {
	n := 0
	for n < limit {
		var x interface{}
		err := d.Decode(&x)
		if err == nil {
			n++
			continue
		}
		if err == io.EOF {
			return fmt.Sprintf("%dE", n)
		}
		return fmt.Sprintf("%dX", n)
	}
	return fmt.Sprintf("%d+", n)
}

func goDecoder(b []byte) (v verdict) {
	v.panic = rt.Guard(func() {
		v.vec = drain(gojson.NewDecoder(bytes.NewReader(b)), len(b)+2)
	})
	return
}

func stdDecoder(b []byte) string {
	return drain(stdjson.NewDecoder(bytes.NewReader(b)), len(b)+2)
}

// ---------------------------------------------------------------------------------------------
// known findings: each is a relaxation of the recogniser, i.e. a pure predicate over the input

type relax struct {
	rx          ref.Relax
	nulCut      bool // the input is cut at its first NUL byte before recognition
	leadSep     bool // ',' and ':' between/before top-level values are skipped (stream entries)
	validCloser bool // Valid only: value, then ']' or '}', then anything
}

type finding struct {
	id      string
	r       relax
	entries string // space separated entries the finding was observed on
}

var findings = []finding{
	{id: "KF-C05-lenient-number", r: relax{rx: ref.Relax{LenientNumber: true}}, entries: "valid unmarshal decoder"},
	{id: "KF-C05-raw-control-in-string", r: relax{rx: ref.Relax{RawControl: true}}, entries: "valid unmarshal decoder"},
	{id: "KF-C05-stream-nul-ends-input", r: relax{nulCut: true}, entries: "valid decoder"},
	{id: "FX-C05-stream-bad-escape", r: relax{rx: ref.Relax{BadEscape: true}}, entries: "valid decoder"},
	{id: "KF-C05-stream-separator-skipped", r: relax{leadSep: true}, entries: "valid decoder"},
	{id: "KF-C05-valid-closer-ends-check", r: relax{validCloser: true}, entries: "valid"},
}

func (a relax) or(b relax) relax {
	return relax{
		rx: ref.Relax{LenientNumber: a.rx.LenientNumber || b.rx.LenientNumber, RawControl: a.rx.RawControl || b.rx.RawControl,
			BadEscape: a.rx.BadEscape || b.rx.BadEscape},
		nulCut: a.nulCut || b.nulCut, leadSep: a.leadSep || b.leadSep, validCloser: a.validCloser || b.validCloser,
	}
}

func scanRelaxed(b []byte, r relax) (int, bool) {
	toks, end, err := ref.Scan(b, r.rx, r.rx.LenientNumber)
	if err != nil {
		return 0, false
	}
	for _, t := range toks {
		if t.Kind == ref.TNumber && !ref.LenientNumberOK(string(b[t.Start:t.End])) {
			return 0, false
		}
	}
	return end, true
}

func isWS(c byte) bool { return c == ' ' || c == '\t' || c == '\n' || c == '\r' }

// relaxedAccept: would entry accept b if the recogniser were relaxed by r?
func relaxedAccept(b []byte, r relax, entry string) bool {
	if r.nulCut {
		if i := bytes.IndexByte(b, 0); i >= 0 {
			b = b[:i]
		}
	}
	skip := func() {
		for len(b) > 0 && (isWS(b[0]) || (r.leadSep && (b[0] == ',' || b[0] == ':'))) {
			b = b[1:]
		}
	}
	if entry == "unmarshal" {
		end, ok := scanRelaxed(b, r)
		if !ok {
			return false
		}
		b = b[end:]
		for len(b) > 0 && isWS(b[0]) {
			b = b[1:]
		}
		return len(b) == 0
	}
	n := 0
	for {
		skip()
		if len(b) == 0 {
			return n > 0
		}
		if entry == "valid" && n == 1 {
			return r.validCloser && (b[0] == ']' || b[0] == '}')
		}
		end, ok := scanRelaxed(b, r)
		if !ok {
			return false
		}
		b = b[end:]
		n++
	}
}

// relaxedVector: the verdict vector ("<n>E" / "<n>X") a drained Decoder would produce if the
// recogniser were relaxed by r.
func relaxedVector(b []byte, r relax) string {
	if r.nulCut {
		if i := bytes.IndexByte(b, 0); i >= 0 {
			b = b[:i]
		}
	}
	n := 0
	for {
		for len(b) > 0 && isWS(b[0]) {
			b = b[1:]
		}
		if len(b) == 0 {
			return fmt.Sprintf("%dE", n)
		}
		if r.leadSep && (b[0] == ',' || b[0] == ':') { // exactly one separator is skipped per Decode call
			b = b[1:]
			for len(b) > 0 && isWS(b[0]) {
				b = b[1:]
			}
			if len(b) == 0 {
				return fmt.Sprintf("%dX", n)
			}
		}
		end, ok := scanRelaxed(b, r)
		if !ok {
			return fmt.Sprintf("%dX", n)
		}
		b = b[end:]
		n++
	}
}

// attribute returns the id of the active known finding whose relaxation alone explains why the
// invalid text b could be accepted by entry (for the decoder entry: explains the verdict vector
// got), "combo" if only the union of all active relaxations does, or "" if nothing known explains it.
func attribute(b []byte, entry, got string) string {
	var all relax
	n := 0
	test := func(r relax) bool {
		if entry == "decoder" {
			return relaxedVector(b, r) == got
		}
		return relaxedAccept(b, r, entry)
	}
	for _, f := range findings {
		if !rt.Active(f.id) || !strings.Contains(f.entries, entry) {
			continue
		}
		n++
		if test(f.r) {
			return f.id
		}
		all = all.or(f.r)
	}
	if n > 1 && test(all) {
		return "combo"
	}
	return ""
}

// numberRunNotNumber: outside strings, a maximal run of number characters ([0-9+-.eE] starting with
// '-' or a digit) that is not one JSON number (0-0, 1-, 2e) — go-json tokenises numbers as such runs.
func numberRunNotNumber(b []byte) bool {
	in := false
	for i := 0; i < len(b); i++ {
		c := b[i]
		if in {
			if c == '\\' {
				i++
			} else if c == '"' {
				in = false
			}
			continue
		}
		if c == '"' {
			in = true
			continue
		}
		if c == '-' || c >= '0' && c <= '9' {
			j := i
			for j < len(b) && strings.IndexByte("0123456789+-.eE", b[j]) >= 0 {
				j++
			}
			if !ref.IsJSONNumber(string(b[i:j])) {
				return true
			}
			i = j - 1
		}
	}
	return false
}

// ---------------------------------------------------------------------------------------------
// bucketed mismatch collection (one failure per class, smallest input first)

type bucket struct {
	n       int
	example []byte
	detail  string
}

type collector struct {
	sub     string
	buckets map[string]*bucket
}

func newCollector(sub string) *collector { return &collector{sub: sub, buckets: map[string]*bucket{}} }

func (c *collector) add(class string, b []byte, detail string) {
	k := c.buckets[class]
	if k == nil {
		k = &bucket{}
		c.buckets[class] = k
	}
	k.n++
	if k.example == nil || len(b) < len(k.example) {
		k.example = append([]byte(nil), b...)
		k.detail = detail
	}
}

func (c *collector) report(t *testing.T) {
	keys := make([]string, 0, len(c.buckets))
	for k := range c.buckets {
		keys = append(keys, k)
	}
	sort.Strings(keys)
	for _, k := range keys {
		bk := c.buckets[k]
		msg := rt.Fail(prop, c.sub+"/"+k, map[string]any{"hex": hex.EncodeToString(bk.example), "text": string(bk.example), "class": k},
			"%s: %d inputs, smallest %q: %s", k, bk.n, bk.example, bk.detail)
		t.Error(msg)
	}
}

// checkOne runs all entries on b and files disagreements.
func checkOne(c *collector, b []byte) {
	want := ref.Valid(b)
	if want != stdjson.Valid(b) {
		rt.Count("harness_error", 1)
		c.add("harness-recogniser-vs-std", b, fmt.Sprintf("recogniser=%v encoding/json.Valid=%v", want, !want))
		return
	}
	if want {
		rt.Label("valid")
	} else {
		rt.Label("invalid")
	}
	// Valid
	v := goValid(b)
	judge(c, "valid", b, want, v.ok, v.panic)
	// Unmarshal into interface{}: oracle is encoding/json (differs from Valid only for numbers
	// beyond float64 range)
	wu := stdUnmarshal(b)
	u := goUnmarshal(b)
	judge(c, "unmarshal", b, wu, u.ok, u.panic)
	// Decoder
	wv := stdDecoder(b)
	d := goDecoder(b)
	if d.panic != nil {
		if wv != "0X" {
			c.add("decoder/panic", b, fmt.Sprint(d.panic))
		} else {
			rt.Label("panic-on-invalid")
		}
	} else if d.vec != wv {
		judgeDecoder(c, b, wv, d.vec)
	}
}

func judge(c *collector, entry string, b []byte, want, got bool, pv any) {
	if pv != nil {
		if want {
			c.add(entry+"/panic-on-valid", b, fmt.Sprint(pv))
		} else {
			rt.Label("panic-on-invalid") // not an acceptance; C06 decides panics
		}
		return
	}
	if want == got {
		return
	}
	if want && !got {
		if entry == "valid" && rt.Active("KF-C05-valid-float-range") && hasOutOfRangeNumber(b) {
			rt.KnownHit("KF-C05-valid-float-range")
			return
		}
		c.add(entry+"/rejects-valid", b, "valid text rejected")
		return
	}
	if id := attribute(b, entry, ""); id != "" {
		rt.KnownHit(id)
		return
	}
	c.add(entry+"/accepts-invalid", b, "invalid text accepted")
}

// hasOutOfRangeNumber: selector of KF-C05-valid-float-range (a number token beyond float64 range).
func hasOutOfRangeNumber(b []byte) bool {
	toks, err := ref.Tokens(b)
	if err != nil {
		return false
	}
	for _, t := range toks {
		if t.Kind == ref.TNumber {
			if _, err := strconv.ParseFloat(string(b[t.Start:t.End]), 64); err != nil {
				return true
			}
		}
	}
	return false
}

func judgeDecoder(c *collector, b []byte, want, got string) {
	// want/got = "<n>E" (n values then io.EOF) | "<n>X" (n values then an error).
	var wn, gn int
	var wk, gk byte
	fmt.Sscanf(want, "%d%c", &wn, &wk)
	fmt.Sscanf(got, "%d%c", &gn, &gk)
	switch {
	case gn > wn || (gn == wn && wk == 'X' && gk == 'E' && gn > 0):
		// more values than encoding/json finds, or a clean end where it reports an error:
		// text outside the language was accepted
		if id := attribute(b, "decoder", got); id != "" {
			rt.KnownHit(id)
			return
		}
		c.add("decoder/accepts-more", b, fmt.Sprintf("verdicts go-json=%s encoding/json=%s", got, want))
	case wk == 'E' && wn > 0:
		// encoding/json accepts the whole stream as wn values; go-json must do the same
		if id := attribute(b, "decoder", got); id != "" { // e.g. "00" read as one lenient number
			rt.KnownHit(id)
			return
		}
		if rt.Active("KF-C05-lenient-number") && numberRunNotNumber(b) { // e.g. "0-0": one run, not a number
			rt.KnownHit("KF-C05-lenient-number")
			return
		}
		c.add("decoder/accepts-less", b, fmt.Sprintf("verdicts go-json=%s encoding/json=%s", got, want))
	default:
		// both reject somewhere, go-json not later than encoding/json: inside the language rule
		rt.Label("decoder-rejects-earlier")
	}
}

// ---------------------------------------------------------------------------------------------
// (a) exhaustive enumeration

var alphabet = []byte("[]{},:\"\\u01-+.eEtralsnf \x00\x01\x7f\xc3\xa9/b")

func enumLen() int {
	if rt.Thorough() {
		return 5
	}
	return 4
}

func TestCheck(t *testing.T) {
	t.Run("enum", testEnum)
	t.Run("mutate", testMutate)
}

func testEnum(t *testing.T) {
	L := enumLen()
	A := len(alphabet)
	c := newCollector("enum")
	var idx, mine int64
	buf := make([]byte, 0, L)
	var rec func(depth int)
	rec = func(depth int) {
		if idx%int64(rt.E.NShards) == int64(rt.E.Shard) {
			mine++
			rt.Journal("enum", func() string { return `{"hex":"` + hex.EncodeToString(buf) + `"}` })
			checkOne(c, buf)
			if rt.WantSample("enum") {
				rt.Sample("enum", map[string]any{"text": string(buf), "valid": ref.Valid(buf)})
			} else {
				rt.Sample("enum", nil)
			}
		}
		idx++
		if depth == L {
			return
		}
		for i := 0; i < A; i++ {
			buf = append(buf, alphabet[i])
			rec(depth + 1)
			buf = buf[:len(buf)-1]
		}
	}
	rec(0)
	rt.Count("cases/enum", mine)
	rt.NonTrivialDistinct(mine)
	rt.Exhaustive(fmt.Sprintf("all byte strings of length <= %d over the %d-byte alphabet %q x {Valid, Unmarshal(&interface{}), drained Decoder}", L, A, alphabet))
	c.report(t)
}

// ---------------------------------------------------------------------------------------------
// (b) valid documents with every single-byte mutation

func testMutate(t *testing.T) {
	c := newCollector("mutate")
	docs := rt.PerShard(rt.N(1600, 40000))
	rt.Rapid(t, "mutate-gen", docs, func(rt_ *rapid.T) {
		cfg := jsongen.DefaultCfg
		cfg.MaxDepth, cfg.MaxElems = 3, 3
		cfg.BigNumbers = true
		doc := jsongen.Gen(rt_, cfg).Render()
		if len(doc) > 160 {
			rt_.Skip("too long")
		}
		if !ref.Valid(doc) {
			rt.Count("harness_error", 1)
			t.Errorf("generator produced invalid text %q", doc)
			return
		}
		one := func(m []byte, kind string) {
			rt.Journal("mutate", func() string { return `{"hex":"` + hex.EncodeToString(m) + `"}` })
			checkOne(c, m)
			rt.Count("cases/mutate", 1)
			if !bytes.Equal(m, doc) {
				rt.NonTrivial(rt.Hash64(string(m)))
			}
			rt.Label("mut-" + kind)
		}
		one(doc, "none")
		m := make([]byte, 0, len(doc)+1)
		for i := 0; i <= len(doc); i++ {
			if i < len(doc) {
				m = append(append(m[:0], doc[:i]...), doc[i+1:]...) // deletion
				one(m, "delete")
				one(doc[:i], "truncate")
			}
			for _, a := range jsongen.MutAlphabet {
				m = append(append(append(m[:0], doc[:i]...), a), doc[i:]...) // insertion
				one(m, "insert")
				if i < len(doc) && doc[i] != a {
					m = append(m[:0], doc...)
					m[i] = a
					one(m, "subst")
				}
			}
		}
		rt.Sample("mutate", map[string]any{"parent": string(doc)})
	})
	c.report(t)
}

// ---------------------------------------------------------------------------------------------

func TestWitness(t *testing.T) {
	type w struct {
		entry string
		in    string
	}
	ws := map[string]w{
		"KF-C05-lenient-number":          {"unmarshal", "01"},
		"KF-C05-raw-control-in-string":   {"unmarshal", "\"\x01\""},
		"FX-C05-stream-bad-escape":       {"valid", `"` + "\\" + `uZZZZ"`},
		"KF-C05-valid-closer-ends-check": {"valid", "0]x"},
		"FX-C05-nul-terminates":          {"unmarshal", "1\x00x"},
		"FX-C05-stream-literal-eof":      {"valid", "tru"},
	}
	for id, x := range ws {
		x := x
		known.Witnesses[id] = func() (bool, string) {
			in := []byte(x.in)
			if x.entry == "unmarshal" {
				v := goUnmarshal(in)
				return v.ok && !stdUnmarshal(in), fmt.Sprintf("Unmarshal(%q) accepted=%v", in, v.ok)
			}
			v := goValid(in)
			return v.ok && !ref.Valid(in), fmt.Sprintf("Valid(%q)=%v", in, v.ok)
		}
	}
	known.RunWitness()
}

func TestReplay(t *testing.T) {
	f, err := rt.LoadReplay()
	if err != nil {
		t.Fatal(err)
	}
	var cs struct {
		Hex string `json:"hex"`
	}
	if err := stdjson.Unmarshal(f.Case, &cs); err != nil {
		t.Fatal(err)
	}
	b, err := hex.DecodeString(cs.Hex)
	if err != nil {
		t.Fatal(err)
	}
	c := newCollector("replay")
	checkOne(c, b)
	c.report(t)
}
