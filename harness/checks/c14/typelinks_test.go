package c14

import (
	"reflect"
	"sort"
	"unsafe"
)

// The same view of the binary's type descriptors that go-json derives its cache window from.

//go:linkname typelinks reflect.typelinks
func typelinks() ([]unsafe.Pointer, [][]int32)

//go:linkname rtypeOff reflect.rtypeOff
func rtypeOff(unsafe.Pointer, int32) unsafe.Pointer

type layout struct {
	Types    []reflect.Type // typelinks entries and the elems of pointer entries, ascending by address
	Addrs    []uintptr
	Base     uintptr
	Max      uintptr
	Range    uintptr
	Shift    uintptr
	FastPath bool // go-json's window is usable (slot count within its 2 Mi limit)
}

func typeAddrOf(t reflect.Type) uintptr {
	return uintptr((*[2]unsafe.Pointer)(unsafe.Pointer(&t))[1])
}

func toType(p unsafe.Pointer) reflect.Type {
	// build a reflect.Type from a descriptor pointer: take any Type's interface header and swap the data word
	t := reflect.TypeOf(0)
	(*[2]unsafe.Pointer)(unsafe.Pointer(&t))[1] = p
	return t
}

// analyzeLayout repeats internal/runtime.AnalyzeTypeAddr step by step (same order, same alignment
// inference) so that the evidence can state which window and shift the library works with.
func analyzeLayout() *layout {
	sections, offsets := typelinks()
	l := &layout{}
	seen := map[uintptr]bool{}
	add := func(t reflect.Type) {
		a := typeAddrOf(t)
		if !seen[a] {
			seen[a] = true
			l.Types = append(l.Types, t)
		}
	}
	min, max := ^uintptr(0), uintptr(0)
	al64, al32 := true, true
	for i, sec := range sections {
		for _, off := range offsets[i] {
			t := toType(rtypeOff(sec, off))
			add(t)
			addr := typeAddrOf(t)
			if min > addr {
				min = addr
			}
			if max < addr {
				max = addr
			}
			if t.Kind() == reflect.Ptr {
				add(t.Elem())
				addr = typeAddrOf(t.Elem())
				if min > addr {
					min = addr
				}
				if max < addr {
					max = addr
				}
			}
			al64 = al64 && (addr-min)&63 == 0
			al32 = al32 && (addr-min)&31 == 0
		}
	}
	sort.Slice(l.Types, func(i, j int) bool { return typeAddrOf(l.Types[i]) < typeAddrOf(l.Types[j]) })
	for _, t := range l.Types {
		l.Addrs = append(l.Addrs, typeAddrOf(t))
	}
	l.Base, l.Max, l.Range = min, max, max-min
	if al64 {
		l.Shift = 6
	} else if al32 {
		l.Shift = 5
	}
	l.FastPath = len(sections) == 1 && l.Range > 0 && l.Range>>l.Shift <= 2*1024*1024
	return l
}

// closure returns every type descriptor reachable from the given types through Elem/Key/fields/
// function signatures (descriptors that sit in the binary without being listed in typelinks).
func closure(roots []reflect.Type) []reflect.Type {
	seen := map[uintptr]bool{}
	var out []reflect.Type
	var walk func(t reflect.Type)
	walk = func(t reflect.Type) {
		if t == nil || seen[typeAddrOf(t)] {
			return
		}
		seen[typeAddrOf(t)] = true
		out = append(out, t)
		switch t.Kind() {
		case reflect.Ptr, reflect.Slice, reflect.Array, reflect.Chan:
			walk(t.Elem())
		case reflect.Map:
			walk(t.Key())
			walk(t.Elem())
		case reflect.Struct:
			for i := 0; i < t.NumField(); i++ {
				walk(t.Field(i).Type)
			}
		case reflect.Func:
			for i := 0; i < t.NumIn(); i++ {
				walk(t.In(i))
			}
			for i := 0; i < t.NumOut(); i++ {
				walk(t.Out(i))
			}
		}
	}
	for _, t := range roots {
		walk(t)
	}
	return out
}
