package c14

import (
	"bytes"
	"context"
	stdjson "encoding/json"
	"fmt"
	"os"
	"reflect"
	"strings"
	"testing"

	gojson "github.com/goccy/go-json"

	"verif/harness/corpus"
	_ "verif/harness/dec"
	"verif/harness/gen"
	"verif/harness/known"
	"verif/harness/ref"
	"verif/harness/rt"
)

const prop = "C14"

func TestMain(m *testing.M) {
	code := m.Run()
	rt.Flush()
	os.Exit(code)
}

// A case: one type of the binary (or a run-time type derived from it), one value (fill seed), one operation.
type Case struct {
	Type    string `json:"type"`    // registry name
	Derive  string `json:"derive"`  // "" | slice | map | array | ptr | struct  (reflect-created around Type)
	Fill    uint64 `json:"fill"`    // filler seed; 0 = zero value
	Decl    string `json:"decl,omitempty"`
	Variant string `json:"variant,omitempty"`
	Sweep   bool   `json:"sweep,omitempty"` // Type is the String() of a non-corpus type of the binary
}

var byName map[string]*corpus.Entry
var theLayout = analyzeLayout()

func entry(name string) *corpus.Entry {
	if byName == nil {
		byName = map[string]*corpus.Entry{}
		for i := range Registry {
			byName[Registry[i].Name] = &Registry[i]
		}
	}
	return byName[name]
}

func derive(t reflect.Type, how string) reflect.Type {
	switch how {
	case "slice":
		return reflect.SliceOf(t)
	case "map":
		return reflect.MapOf(reflect.TypeOf(""), t)
	case "array":
		return reflect.ArrayOf(2, t)
	case "ptr":
		return reflect.PointerTo(t)
	case "struct":
		return reflect.StructOf([]reflect.StructField{
			{Name: "A", Type: reflect.TypeOf(int8(0))},
			{Name: "V", Type: t, Tag: `json:"v"`},
			{Name: "B", Type: reflect.TypeOf("")},
		})
	case "pstruct": // pointer to the run-time-created struct: decoded before the struct itself in half of the cases
		return reflect.PointerTo(derive(t, "struct"))
	case "structptr":
		return reflect.StructOf([]reflect.StructField{
			{Name: "P", Type: reflect.PointerTo(t)},
			{Name: "L", Type: reflect.SliceOf(t)},
		})
	}
	return t
}

var derivations = []string{"slice", "map", "array", "ptr", "struct", "structptr"}

type failer struct {
	t     *testing.T
	fails int
}

func (f *failer) fail(sub string, c Case, format string, args ...any) {
	f.fails++
	if f.fails <= 3 {
		if e := entry(c.Type); e != nil {
			c.Decl = e.Decl
		}
		f.t.Error(rt.Fail(prop, sub, c, format, args...))
	}
}

// runCase encodes and decodes one value of one type with go-json and with encoding/json and compares.
func runCase(f *failer, c Case) {
	e := entry(c.Type)
	if e == nil {
		f.t.Fatalf("type %q is not in this binary's registry (corpus seed %d)", c.Type, CorpusSeed)
	}
	if c.Derive == "array" && e.PtrRecvByValue {
		return // pointer-receiver marshalers as array elements: open encoder finding, constructed around
	}
	t := derive(e.Type, c.Derive)
	rt.Journal("type", func() string { b, _ := stdjson.Marshal(c); return string(b) })
	var v reflect.Value
	if c.Fill == 0 {
		v = reflect.New(t).Elem()
	} else {
		v = corpus.NewFiller(c.Fill, 120).Fill(t)
	}
	composite := e.Composite || c.Derive != "" || t.Kind() == reflect.Struct
	opKind := "encode"
	// --- encode (by value and through a pointer: two cache entries)
	want, werr := stdjson.Marshal(v.Interface())
	for _, how := range []string{"value", "pointer", "indent"} {
		var got []byte
		var gerr error
		pv := rt.Guard(func() {
			switch how {
			case "value":
				got, gerr = gojson.Marshal(v.Interface())
			case "pointer":
				if t.Kind() == reflect.Ptr {
					return // **T: pointer chains are an open encoder finding, constructed around
				}
				got, gerr = gojson.Marshal(v.Addr().Interface())
			case "indent":
				got, gerr = gojson.MarshalIndent(v.Interface(), "", " ")
			}
		})
		if how == "pointer" && t.Kind() == reflect.Ptr {
			continue
		}
		rt.Count("cases/"+opKind, 1)
		w, we := want, werr
		if how == "pointer" {
			w, we = stdjson.Marshal(v.Addr().Interface())
		}
		if pv != nil {
			f.fail("encode-panic", c, "%s: go-json panics: %v (encoding/json: %.300q, %v)", how, pv, w, we)
			return
		}
		if (gerr != nil) != (we != nil) {
			f.fail("encode-error", c, "%s: go-json error %v, encoding/json error %v", how, gerr, we)
			return
		}
		if gerr == nil {
			if d := ref.SameDocument(got, w); d != "" {
				f.fail("encode-differs", c, "%s: %s\n go-json: %.600q\n std:     %.600q", how, d, got, w)
				return
			}
		}
	}
	// --- decode the standard text back
	if werr == nil {
		opKind = "decode"
		gv, sv := reflect.New(t), reflect.New(t)
		var gerr error
		serr := stdjson.Unmarshal(want, sv.Interface())
		pv := rt.Guard(func() { gerr = gojson.Unmarshal(want, gv.Interface()) })
		rt.Count("cases/"+opKind, 1)
		if pv != nil {
			f.fail("decode-panic", c, "go-json panics decoding %.400q: %v", want, pv)
			return
		}
		if (gerr != nil) != (serr != nil) {
			f.fail("decode-error", c, "decoding %.400q: go-json error %v, encoding/json error %v", want, gerr, serr)
			return
		}
		if gerr == nil {
			if a, b := gen.Render(gv.Elem()), gen.Render(sv.Elem()); a != b {
				f.fail("decode-differs", c, "decoding %.400q:\n go-json: %.600s\n std:     %.600s", want, a, b)
				return
			}
		}
	}
	if c.Derive == "" {
		if a := typeAddrOf(reflect.PointerTo(t)); a == theLayout.Max {
			rt.Label("decode destination type at the window's upper bound")
		} else if a == theLayout.Base {
			rt.Label("decode destination type at the window's lower bound")
		}
		if a := typeAddrOf(t); a == theLayout.Max {
			rt.Label("encoded type at the window's upper bound")
		}
	}
	kind := "compiled"
	if c.Derive != "" {
		kind = "runtime-created"
	}
	if composite {
		rt.NonTrivial(rt.Hash64(c.Type, c.Derive, kind))
		rt.Label("type/" + kind)
	} else {
		rt.Label("type/scalar")
	}
	if e.Methods != "" {
		rt.Label("methods/" + e.Methods)
	}
	if len(e.Links) > 0 {
		rt.Label("recursive type")
	}
	if rt.WantSample(kind) {
		rt.Sample(kind, map[string]any{"case": c, "go_type": t.String(), "std_output": clip(string(want), 300)})
	} else {
		rt.Sample(kind, nil)
	}
}

func clip(s string, n int) string {
	if len(s) > n {
		return s[:n] + "…"
	}
	return s
}

// queryFirst makes the very first use of a type a filtered encoding (MarshalContext with a FieldQuery
// selecting its first field): the program cached for the type must still be the type's own.
func queryFirst(f *failer, e *corpus.Entry) {
	t := e.Type
	if t.Kind() != reflect.Struct || e.Methods != "" || t.NumField() == 0 || t.Field(0).Anonymous {
		return
	}
	name := t.Field(0).Name
	if tag := t.Field(0).Tag.Get("json"); tag != "" {
		if k := strings.Split(tag, ",")[0]; k != "" {
			name = k
		}
	}
	q, err := gojson.BuildFieldQuery(gojson.FieldQueryString(name))
	if err != nil {
		return
	}
	c := Case{Type: e.Name, Variant: "query-first"}
	rt.Journal("query-first", func() string { return e.Name })
	v := reflect.New(t).Elem()
	var got []byte
	pv := rt.Guard(func() {
		got, err = gojson.MarshalContext(gojson.SetFieldQueryToContext(context.Background(), q), v.Interface())
	})
	rt.Count("cases/query-first", 1)
	if pv != nil {
		f.fail("query-first-panic", c, "MarshalContext with query %q panics: %v", name, pv)
		return
	}
	if err == nil {
		var m map[string]stdjson.RawMessage
		if uerr := stdjson.Unmarshal(got, &m); uerr != nil || len(m) > 1 {
			f.fail("query-first", c, "MarshalContext with query %q returned %.300q", name, got)
		}
	}
	rt.Label("first use of the type is a filtered encoding")
}

// sweepType pushes one arbitrary type of the binary (runtime, testing, reflect ... types included)
// through both caches: encode its zero value, decode null into it.  No output oracle here (these are
// not JSON-meant types); the oracles are the hooks and the absence of panics.
func sweepType(f *failer, ty reflect.Type) {
	c := Case{Type: ty.String(), Sweep: true}
	rt.Journal("sweep", func() string { return ty.String() })
	var zero interface{}
	if pv := rt.Guard(func() { zero = reflect.Zero(ty).Interface() }); pv != nil {
		return
	}
	if ty.Kind() == reflect.Array && ty.Len() > 2048 {
		// a huge array of the runtime: compile only (encode a nil pointer to it), the elements add nothing
		if pv := rt.Guard(func() { _, _ = gojson.Marshal(reflect.Zero(reflect.PointerTo(ty)).Interface()) }); pv != nil {
			f.fail("sweep-encode-panic", c, "Marshal(nil *%s) panics: %v", ty, pv)
		}
	} else if pv := rt.Guard(func() { _, _ = gojson.Marshal(zero) }); pv != nil {
		f.fail("sweep-encode-panic", c, "Marshal(zero %s) panics: %v", ty, pv)
	}
	var dst interface{}
	if pv := rt.Guard(func() { dst = reflect.New(ty).Interface() }); pv != nil {
		return // not-in-heap runtime types
	}
	if pv := rt.Guard(func() { _ = gojson.Unmarshal([]byte("null"), dst) }); pv != nil {
		f.fail("sweep-decode-panic", c, "Unmarshal(null, *%s) panics: %v", ty, pv)
	}
	rt.Count("cases/sweep", 2)
}

func isCorpusType(ty reflect.Type) bool {
	return strings.Contains(ty.String(), "c14.")
}

func sweep(f *failer, l *layout, from, step int) {
	for i := from; i < len(l.Types) && f.fails <= 3; i += step {
		if !isCorpusType(l.Types[i]) {
			sweepType(f, l.Types[i])
		}
	}
}

func TestCheck(t *testing.T) {
	f := &failer{t: t}
	l := theLayout
	if rt.E.Shard == 0 {
		rt.Note(fmt.Sprintf("layout of this binary (variant %s): %d type descriptors in typelinks (+ pointer elems), window [%#x, %#x], range %d bytes, inferred shift %d, address-indexed path usable: %v",
			os.Getenv("VERIF_VARIANT"), len(l.Types), l.Base, l.Max, l.Range, l.Shift, l.FastPath))
	}
	if l.FastPath {
		rt.Label("layout/address-indexed path enabled")
	} else {
		rt.Label("layout/fallback map only")
	}
	// boundary types first in even shards (cold caches), all other types of the binary after the corpus walk
	if rt.E.Shard%2 == 0 {
		n := len(l.Types)
		for _, i := range []int{0, n - 1, 1, n - 2, 2, n - 3} {
			if i >= 0 && i < n && !isCorpusType(l.Types[i]) {
				sweepType(f, l.Types[i])
				rt.Label("boundary type of the window")
			}
		}
	}
	fl := corpus.NewFiller(rt.SubSeed("order"), 1<<30)
	n := len(Registry)
	order := make([]int, n)
	for i := range order {
		order[i] = i
	}
	for i := n - 1; i > 0; i-- { // a different processing order in every shard
		j := fl.Intn(i + 1)
		order[i], order[j] = order[j], order[i]
	}
	rt.Count("corpus_types", int64(n))
	race := strings.Contains(os.Getenv("VERIF_VARIANT"), "race")
	for pass := 0; pass < 2; pass++ { // cold, then warm
		for k, idx := range order {
			if f.fails > 3 {
				break
			}
			if race && (k+rt.E.Shard)%12 != 0 {
				continue // the race build is ~50x slower: each race shard takes its own twelfth of the corpus
			}
			e := &Registry[idx]
			if pass == 0 && (k+rt.E.Shard)%4 == 1 {
				queryFirst(f, e)
			}
			seed := rt.Hash64(e.Name, fmt.Sprint(rt.E.Seed), fmt.Sprint(pass)) | 1
			runCase(f, Case{Type: e.Name, Fill: 0})
			runCase(f, Case{Type: e.Name, Fill: seed})
			if !e.Composite && (k+rt.E.Shard)%3 == 0 { // a run-time-created type in between (heap descriptor)
				d := derivations[(k/3+pass+rt.E.Shard)%len(derivations)]
				if d == "struct" && (k/3)%2 == 0 {
					// first the pointer type of the same run-time struct (**S destination), then the struct (*S):
					// both live in the fallback map only
					runCase(f, Case{Type: e.Name, Derive: "pstruct", Fill: seed})
					rt.Label("run-time pointer type decoded before its element type")
				}
				runCase(f, Case{Type: e.Name, Derive: d, Fill: seed})
			}
			if rt.Thorough() {
				runCase(f, Case{Type: e.Name, Fill: seed + 2})
			}
		}
	}
	if race {
		sweep(f, l, rt.E.Shard%8, 8)
	} else {
		sweep(f, l, 0, 1)
	}
	hc := hookCounters()
	for k, v := range hc {
		rt.Count("hook/"+k, int64(v))
	}
	if strings.Contains(os.Getenv("VERIF_VARIANT"), "hooks") {
		if hc["encoder_codeset_checks"] == 0 || hc["decoder_slot_checks"] == 0 {
			rt.Count("harness_error", 1)
			t.Errorf("harness: the verif hooks did not run (%v)", hc)
		}
	}
}

func TestReplay(t *testing.T) {
	fl, err := rt.LoadReplay()
	if err != nil {
		t.Fatal(err)
	}
	var c Case
	if err := stdjson.Unmarshal(bytes.TrimSpace(fl.Case), &c); err != nil {
		t.Fatal(err)
	}
	f := &failer{t: t}
	if c.Sweep {
		for _, ty := range analyzeLayout().Types {
			if ty.String() == c.Type {
				sweepType(f, ty)
			}
		}
		return
	}
	// the cold order matters for cache defects: process the registry prefix up to the type first
	for i := range Registry {
		if Registry[i].Name == c.Type {
			break
		}
		if i%7 == 0 {
			runCase(f, Case{Type: Registry[i].Name})
		}
	}
	runCase(f, c)
}

func TestWitness(t *testing.T) {
	known.RunWitness()
}
