//go:build !verif

package c14

func hookCounters() map[string]uint64 { return nil }
