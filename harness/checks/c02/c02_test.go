package c02

import (
	"bytes"
	"context"
	stdjson "encoding/json"
	"fmt"
	"os"
	"reflect"
	"testing"
	"unicode/utf8"

	gojson "github.com/goccy/go-json"
	"pgregory.net/rapid"

	_ "verif/harness/dec"
	"verif/harness/enc"
	"verif/harness/gen"
	"verif/harness/jsongen"
	"verif/harness/known"
	"verif/harness/ref"
	"verif/harness/rt"
)

const prop = "C02"

func TestMain(m *testing.M) {
	code := m.Run()
	rt.Flush()
	os.Exit(code)
}

type Case struct {
	Spec   *gen.TypeSpec `json:"spec"`
	Type   string        `json:"type"`
	Doc    string        `json:"doc"`
	Prepop bool          `json:"prepop"`
	Recipe gen.Recipe    `json:"recipe"`
	Entry  string        `json:"entry"` // unmarshal | withoption | context | decoder | decoder-usenumber | decoder-disallow
	Active []string      `json:"active"`
	StdErr string        `json:"std_err,omitempty"`
	GoErr  string        `json:"go_err,omitempty"`
	StdVal string        `json:"std_val,omitempty"`
	GoVal  string        `json:"go_val,omitempty"`
}

func typeCfg() gen.TypeCfg {
	c := gen.DefaultTypeCfg()
	c.Leaves = append(append(append([]string{}, gen.PlainLeaves...), gen.UnmarshalLeaves...), "EmbA", "EmbB", "EmbC", "KeyMT")
	c.KeyKinds = append(append([]string{}, gen.DefaultKeyKinds...), "leaf:KeyMT")
	c.Wide = true
	c.BigArrays = false
	return c
}

func valCfg() gen.ValCfg { return known.DecValCfg(gen.ValCfg{ValidUTF8: true}) }

var entries = []string{"unmarshal", "unmarshal", "unmarshal", "withoption", "context", "decoder", "decoder-usenumber", "decoder-disallow"}

func TestCheck(t *testing.T) {
	n := rt.PerShard(rt.N(300000, 4000000))
	rt.Rapid(t, "typed", n, func(t *rapid.T) {
		spec := gen.GenType(t, typeCfg())
		known.RepairDecSpec(spec)
		typ := enc.SafeType(spec)
		if typ == nil {
			t.Skip("reflect refuses the shape")
		}
		c := &Case{Spec: spec, Type: spec.String(), Active: rt.ActiveList()}
		c.Entry = rapid.SampledFrom(entries).Draw(t, "entry")
		if rapid.IntRange(0, 9).Draw(t, "free") < 3 {
			cfg := jsongen.DefaultCfg
			cfg.BigNumbers = true
			c.Doc = string(jsongen.Gen(t, cfg).Render())
		} else {
			tc := known.DecTypedCfg(jsongen.DefaultTyped)
			tc.CaseKeys = rapid.IntRange(0, 3).Draw(t, "casekeys") == 0 // per document, so that most documents stay outside the case-fold finding
			c.Doc = string(jsongen.Typed(t, spec, tc))
		}
		if rapid.IntRange(0, 2).Draw(t, "prepop") == 0 {
			c.Prepop = true
			_, c.Recipe = gen.Draw(t, typ, valCfg())
		}
		if msg := runCase(c, typ); msg != "" {
			t.Fatalf("%s", msg)
		}
	})
}

func mkDest(c *Case, typ reflect.Type) reflect.Value {
	p := reflect.New(typ)
	if c.Prepop {
		p.Elem().Set(gen.Rebuild(typ, c.Recipe, valCfg()))
	}
	return p
}

func stdDecode(c *Case, dst interface{}) error {
	doc := []byte(c.Doc)
	switch c.Entry {
	case "decoder", "decoder-usenumber", "decoder-disallow":
		d := stdjson.NewDecoder(bytes.NewReader(doc))
		if c.Entry == "decoder-usenumber" {
			d.UseNumber()
		}
		if c.Entry == "decoder-disallow" {
			d.DisallowUnknownFields()
		}
		return d.Decode(dst)
	}
	return stdjson.Unmarshal(doc, dst)
}

func goDecode(c *Case, dst interface{}) (err error, pv any) {
	defer func() {
		if r := recover(); r != nil {
			pv = fmt.Sprint(r)
		}
	}()
	doc := []byte(c.Doc)
	switch c.Entry {
	case "unmarshal":
		err = gojson.Unmarshal(doc, dst)
	case "withoption":
		err = gojson.UnmarshalWithOption(doc, dst)
	case "context":
		err = gojson.UnmarshalContext(context.Background(), doc, dst)
	default:
		d := gojson.NewDecoder(bytes.NewReader(doc))
		if c.Entry == "decoder-usenumber" {
			d.UseNumber()
		}
		if c.Entry == "decoder-disallow" {
			d.DisallowUnknownFields()
		}
		err = d.Decode(dst)
	}
	return
}

func render(v interface{}) string {
	s := fmt.Sprintf("%#v", v)
	if b, err := stdjson.Marshal(v); err == nil {
		s = string(b) + "   " + s
	}
	if len(s) > 700 {
		s = s[:700] + "…"
	}
	return s
}

func runCase(c *Case, typ reflect.Type) string {
	const sub = "typed"
	doc := []byte(c.Doc)
	if !ref.Valid(doc) || !utf8.Valid(doc) {
		rt.Count("harness_error", 1)
		return rt.Fail(prop, sub, c, "harness: generated document is not valid UTF-8 JSON: %q", c.Doc)
	}
	a, b := mkDest(c, typ), mkDest(c, typ)
	werr := stdDecode(c, a.Interface())
	rt.Journal(sub, func() string { x, _ := stdjson.Marshal(c); return string(x) })
	gerr, pv := goDecode(c, b.Interface())
	rt.Count("cases/"+sub, 1)
	rt.Label("entry=" + c.Entry)
	if c.Prepop {
		rt.Label("prepopulated")
	}
	if werr != nil {
		rt.Label("std-error")
	} else {
		rt.Label("std-success")
	}
	toks, _ := ref.Tokens(doc)
	if len(toks) >= 3 {
		rt.NonTrivial(rt.Hash64(c.Type, c.Doc, fmt.Sprint(c.Recipe), c.Entry))
	}
	if rt.WantSample(sub) {
		rt.Sample(sub, map[string]any{"type": c.Type, "doc": c.Doc, "entry": c.Entry, "prepop": c.Prepop, "std_err": fmt.Sprint(werr)})
	} else {
		rt.Sample(sub, nil)
	}
	fail := ""
	switch {
	case pv != nil:
		fail = fmt.Sprintf("panic: %v", pv)
	case (werr == nil) != (gerr == nil):
		fail = fmt.Sprintf("error mismatch: encoding/json err=%v, go-json err=%v", werr, gerr)
	case werr == nil && !reflect.DeepEqual(a.Elem().Interface(), b.Elem().Interface()):
		fail = "destinations differ"
	}
	if fail == "" {
		return ""
	}
	if id := known.DecExpect(c.Spec, doc, c.Entry, c.Prepop); id != "" {
		rt.KnownHit(id)
		return ""
	}
	c.StdErr, c.GoErr = fmt.Sprint(werr), fmt.Sprint(gerr)
	c.StdVal, c.GoVal = render(a.Elem().Interface()), render(b.Elem().Interface())
	return rt.Fail(prop, sub, c, "%s\n type: %s\n doc: %s\n entry=%s prepop=%v\n encoding/json: %s\n go-json:       %s", fail, c.Type, c.Doc, c.Entry, c.Prepop, c.StdVal, c.GoVal)
}

func TestReplay(t *testing.T) {
	f, err := rt.LoadReplay()
	if err != nil {
		t.Fatal(err)
	}
	var c Case
	if err := stdjson.Unmarshal(f.Case, &c); err != nil {
		t.Fatal(err)
	}
	rt.SetActive(c.Active)
	typ := enc.SafeType(c.Spec)
	if typ == nil {
		t.Fatal("cannot realise type")
	}
	if msg := runCase(&c, typ); msg != "" {
		t.Fatal(msg)
	}
}

func TestWitness(t *testing.T) {
	enc.RunWitness(t)
}
