package c17

import (
	"bytes"
	"encoding/hex"
	stdjson "encoding/json"
	"fmt"
	"os"
	"strings"
	"testing"
	"unicode/utf8"

	gojson "github.com/goccy/go-json"

	_ "verif/harness/dec"
	"verif/harness/jsongen"
	"verif/harness/known"
	"verif/harness/ref"
	"verif/harness/rt"
)

const prop = "C17"

func TestMain(m *testing.M) {
	code := m.Run()
	rt.Flush()
	os.Exit(code)
}

type failer struct {
	t     *testing.T
	sub   string
	fails int
}

func (f *failer) fail(c any, format string, args ...any) {
	f.fails++
	if f.fails <= 1 {
		f.t.Error(rt.Fail(prop, f.sub, c, format, args...))
	}
}

// ---------------------------------------------------------------------------------------------
// encoding

type flags struct{ html, norm bool }

var allFlags = []flags{{true, true}, {false, true}, {true, false}, {false, false}}

func (fl flags) opts() []gojson.EncodeOptionFunc {
	var o []gojson.EncodeOptionFunc
	if !fl.html {
		o = append(o, gojson.DisableHTMLEscape())
	}
	if !fl.norm {
		o = append(o, gojson.DisableNormalizeUTF8())
	}
	return o
}

func stdLiteral(s string, html bool) []byte {
	var buf bytes.Buffer
	e := stdjson.NewEncoder(&buf)
	e.SetEscapeHTML(html)
	e.Encode(s)
	return bytes.TrimSuffix(buf.Bytes(), []byte("\n"))
}

// checkLiteral applies the statement to one emitted literal.
func checkLiteral(s string, lit []byte, fl flags) string {
	if len(lit) < 2 || lit[0] != '"' || !ref.Valid(lit) {
		return "not a well-formed JSON string literal"
	}
	for _, c := range lit {
		if c < 0x20 {
			return "raw control character in the literal"
		}
	}
	if fl.html && bytes.ContainsAny(lit, "<>&") {
		return "raw <, > or & although HTML escaping is on"
	}
	if fl.norm && fl.html && (bytes.Contains(lit, []byte(string(rune(0x2028)))) || bytes.Contains(lit, []byte(string(rune(0x2029))))) {
		return "raw U+2028/U+2029 although HTML escaping is on"
	}
	var back string
	if err := stdjson.Unmarshal(lit, &back); err != nil {
		return "encoding/json cannot decode the literal: " + err.Error()
	}
	want := strings.ToValidUTF8(s, "�")
	// encoding/json replaces each invalid byte by one U+FFFD; ToValidUTF8 merges runs: compare run-insensitively
	if collapse(back) != collapse(want) {
		return fmt.Sprintf("decodes to %q, want %q (invalid bytes as U+FFFD)", back, want)
	}
	if fl.norm {
		if !utf8.Valid(lit) {
			return "literal is not valid UTF-8 although normalisation is on"
		}
		std := stdLiteral(s, fl.html)
		if ref.CanonToken(ref.TString, lit) != ref.CanonToken(ref.TString, std) {
			return fmt.Sprintf("differs from encoding/json's literal %q beyond the tolerated spellings", std)
		}
	}
	return ""
}

func collapse(s string) string {
	for strings.Contains(s, "��") {
		s = strings.ReplaceAll(s, "��", "�")
	}
	return s
}

func encodeOne(f *failer, s string) {
	rt.Journal(f.sub, func() string { return `{"dir":"encode","hex":"` + hex.EncodeToString([]byte(s)) + `"}` })
	for _, fl := range allFlags {
		// as a value
		lit, err := gojson.MarshalWithOption(s, fl.opts()...)
		rt.Count("cases/"+f.sub, 1)
		if err != nil {
			f.fail(map[string]any{"dir": "encode", "hex": hex.EncodeToString([]byte(s)), "html": fl.html, "norm": fl.norm}, "Marshal(%q) html=%v norm=%v: error %v", s, fl.html, fl.norm, err)
			return
		}
		if msg := checkLiteral(s, lit, fl); msg != "" {
			f.fail(map[string]any{"dir": "encode", "hex": hex.EncodeToString([]byte(s)), "html": fl.html, "norm": fl.norm}, "Marshal(%q) html=%v norm=%v = %q: %s", s, fl.html, fl.norm, lit, msg)
			return
		}
		// as a map key and as a value inside a struct / interface (compact and indent share AppendString)
		m, err := gojson.MarshalWithOption(map[string]interface{}{s: s}, fl.opts()...)
		if err != nil || len(m) < 2*len(lit)+3 || string(m) != "{"+string(lit)+":"+string(lit)+"}" {
			f.fail(map[string]any{"dir": "encode", "hex": hex.EncodeToString([]byte(s)), "html": fl.html, "norm": fl.norm, "where": "map"}, "Marshal(map{%q:%q}) html=%v norm=%v = %q err=%v; want {%s:%s}", s, s, fl.html, fl.norm, m, err, lit, lit)
			return
		}
	}
}

// ---------------------------------------------------------------------------------------------
// decoding

type holder struct {
	V string
	S string `json:"s,string"`
	T textRec
	M map[string]int
	I interface{}
}

type textRec struct{ Got string }

func (r *textRec) UnmarshalText(b []byte) error { r.Got = string(b); return nil }

func decodeOne(f *failer, lit string) {
	rt.JournalS(f.sub, `{"dir":"decode","lit":`+fmt.Sprintf("%q", lit)+`}`)
	rt.Count("cases/"+f.sub, 1)
	var want string
	if err := stdjson.Unmarshal([]byte(lit), &want); err != nil {
		rt.Count("harness_error", 1)
		f.fail(map[string]any{"dir": "decode", "lit": lit}, "harness: encoding/json rejects generated literal %s: %v", lit, err)
		return
	}
	bad := func(where string, got string, err error) bool {
		if err != nil || got != want {
			f.fail(map[string]any{"dir": "decode", "lit": lit, "where": where}, "%s: literal %s decodes to %q err=%v; encoding/json gives %q", where, lit, got, err, want)
			return true
		}
		return false
	}
	// value: buffer, stream whole, stream byte-by-byte, stream with every single cut
	var a string
	err := gojson.Unmarshal([]byte(lit), &a)
	if bad("Unmarshal", a, err) {
		return
	}
	for cut := 0; cut <= len(lit); cut++ {
		var b string
		pieces := []int{cut, len(lit) - cut}
		if cut == 0 {
			pieces = make([]int, len(lit))
			for i := range pieces {
				pieces[i] = 1
			}
		}
		err = gojson.NewDecoder(jsongen.NewChunkReader([]byte(lit), pieces)).Decode(&b)
		if bad(fmt.Sprintf("Decoder(pieces %v)", pieces), b, err) {
			return
		}
		if len(lit) > 40 && cut > 0 && cut%7 != 0 {
			continue
		}
	}
	// positions: struct field, ,string payload, UnmarshalText payload, map key, interface{}
	inner, _ := stdjson.Marshal(lit) // the literal quoted once more = a ,string payload
	doc := `{"V":` + lit + `,"s":` + string(inner) + `,"T":` + lit + `,"M":{` + lit + `:1},"I":[` + lit + `]}`
	for _, mode := range []string{"buffer", "stream", "stream-1byte"} {
		var h holder
		switch mode {
		case "buffer":
			err = gojson.Unmarshal([]byte(doc), &h)
		case "stream":
			err = gojson.NewDecoder(strings.NewReader(doc)).Decode(&h)
		default:
			pieces := make([]int, len(doc))
			for i := range pieces {
				pieces[i] = 1
			}
			err = gojson.NewDecoder(jsongen.NewChunkReader([]byte(doc), pieces)).Decode(&h)
		}
		if err != nil {
			f.fail(map[string]any{"dir": "decode", "lit": lit, "where": "positions/" + mode}, "positions(%s): %s: error %v", mode, doc, err)
			return
		}
		var ikey string
		for k := range h.M {
			ikey = k
		}
		var ival string
		if l, ok := h.I.([]interface{}); ok && len(l) == 1 {
			ival, _ = l[0].(string)
		}
		for _, p := range []struct{ where, got string }{{"struct field", h.V}, {",string payload", h.S}, {"UnmarshalText payload", h.T.Got}, {"map key", ikey}, {"interface{} element", ival}} {
			if p.got != want || len(h.M) != 1 {
				f.fail(map[string]any{"dir": "decode", "lit": lit, "where": p.where + "/" + mode}, "%s (%s): literal %s gives %q; encoding/json gives %q", p.where, mode, lit, p.got, want)
				return
			}
		}
	}
}

// atoms of JSON string literals
var atoms = buildAtoms()

func uesc(r rune, upper bool) string {
	if upper {
		return fmt.Sprintf("%cu%04X", 0x5c, r)
	}
	return fmt.Sprintf("%cu%04x", 0x5c, r)
}

func buildAtoms() []string {
	bs := string(rune(0x5c))
	out := []string{"a", "Z", string(rune(0xe9)), string(rune(0x20ac)), string(rune(0x1D11E))} // plain ASCII, 2-, 3-, 4-byte runes
	for _, c := range []string{`"`, bs, "/", "b", "f", "n", "r", "t"} {
		out = append(out, bs+c) // simple escapes
	}
	out = append(out,
		uesc(0x41, false), uesc(0x1f, false), uesc(0xe9, true), uesc(0x20ac, false), // ASCII, control, BMP
		uesc(0xd834, false)+uesc(0xdd1e, false), uesc(0xd83d, true)+uesc(0xde00, true), // surrogate pairs
		uesc(0xd800, false), uesc(0xdc00, false), uesc(0, false), uesc(0xdbff, true), uesc(0xdfff, false), // lone surrogates, NUL
		uesc(0x2028, false), uesc(0x3c, false),
	)
	return out
}

func atomDepth() int {
	if rt.Thorough() {
		return 5
	}
	return 4
}

// ---------------------------------------------------------------------------------------------

var classes = [][]byte{
	{0x00}, {0x01}, {0x1f}, {'\n'}, {'"'}, {'\\'}, {'<'}, {'>'}, {'&'}, {0x7f}, {'/'},
	{0x80}, {0xbf}, {0xc0, 0xaf}, {0xc2, 0x80}, {0xc3, 0xa9}, {0xc3}, {0xdf, 0xbf}, {0xe0, 0x80, 0x80}, {0xe0, 0xa0, 0x80}, {0xe2, 0x82, 0xac}, {0xe2, 0x82},
	{0xe2, 0x80, 0xa8}, {0xe2, 0x80, 0xa9}, {0xe2, 0x80, 0xa7}, {0xed, 0x9f, 0xbf}, {0xed, 0xa0, 0x80}, {0xed, 0xbf, 0xbf}, {0xef, 0xbf, 0xbd}, {0xef, 0xbf, 0xbf},
	{0xf0, 0x90, 0x80, 0x80}, {0xf0, 0x9f, 0x98, 0x80}, {0xf0, 0x9f}, {0xf4, 0x8f, 0xbf, 0xbf}, {0xf4, 0x90, 0x80, 0x80}, {0xf5, 0x80, 0x80, 0x80}, {0xf8, 0x88, 0x80, 0x80, 0x80}, {0xfe}, {0xff},
}

func TestCheck(t *testing.T) {
	shard, n := int64(rt.E.Shard), int64(rt.E.NShards)
	t.Run("encode-exhaustive", func(t *testing.T) {
		f := &failer{t: t, sub: "encode-exhaustive"}
		maxLen := 2
		if rt.Thorough() {
			maxLen = 3
		}
		var idx, mine int64
		buf := make([]byte, 0, 3)
		var rec func(d int)
		rec = func(d int) {
			if idx%n == shard {
				mine++
				encodeOne(f, string(buf))
			}
			idx++
			if d == maxLen || f.fails > 0 {
				return
			}
			for c := 0; c < 256; c++ {
				buf = append(buf, byte(c))
				rec(d + 1)
				buf = buf[:len(buf)-1]
			}
		}
		rec(0)
		rt.NonTrivialDistinct(mine)
		rt.Exhaustive(fmt.Sprintf("encode: all byte strings of length <= %d over all 256 byte values x 4 flag combinations x {value, map key}", maxLen))
		rt.Sample("encode-exhaustive", map[string]any{"strings": mine, "max_len": maxLen})
	})
	t.Run("encode-positioned", func(t *testing.T) {
		f := &failer{t: t, sub: "encode-positioned"}
		var idx, mine int64
		fillers := []byte{'a', 'x'}
		for total := 4; total <= 40; total++ {
			for ci, cl := range classes {
				for off := 0; off+len(cl) <= total && off <= 17; off++ {
					for _, fill := range fillers {
						for _, second := range []int{-1, 3} { // optionally a second special byte later in the string
							if idx%n == shard {
								b := bytes.Repeat([]byte{fill}, total)
								copy(b[off:], cl)
								if second >= 0 {
									cl2 := classes[(ci*7+off+total)%len(classes)]
									if p := off + len(cl) + second; p+len(cl2) <= total {
										copy(b[p:], cl2)
									} else {
										idx++
										continue
									}
								}
								mine++
								encodeOne(f, string(b))
								if mine%997 == 1 {
									rt.Sample("encode-positioned", map[string]any{"hex": hex.EncodeToString(b)})
								}
							}
							idx++
						}
					}
				}
			}
			if f.fails > 0 {
				break
			}
		}
		rt.NonTrivialDistinct(mine)
	})
	t.Run("decode-atoms", func(t *testing.T) {
		f := &failer{t: t, sub: "decode-atoms"}
		depth := atomDepth()
		var idx, mine int64
		var rec func(d int, cur string)
		rec = func(d int, cur string) {
			if idx%n == shard {
				mine++
				decodeOne(f, `"`+cur+`"`)
				if mine%1999 == 1 {
					rt.Sample("decode-atoms", map[string]any{"literal": `"` + cur + `"`})
				}
			}
			idx++
			if d == depth || f.fails > 0 {
				return
			}
			for _, a := range atoms {
				rec(d+1, cur+a)
			}
		}
		rec(0, "")
		rt.NonTrivialDistinct(mine)
		rt.Exhaustive(fmt.Sprintf("decode: all JSON string literals of <= %d atoms over %d atom kinds x {value (buffer, stream, every single cut), struct field, ,string payload, UnmarshalText payload, map key, interface{}}", depth, len(atoms)))
		// longer literals: atoms placed at each offset of a long ASCII filler (in-place unescape far from the start)
		for i, a := range atoms {
			for _, off := range []int{0, 1, 7, 8, 9, 15, 16, 17, 31, 32, 63, 64, 200, 511, 512, 513, 1023} {
				if int64(i+off)%n == shard {
					decodeOne(f, `"`+strings.Repeat("x", off)+a+"tail"+a+`"`)
					mine++
				}
			}
		}
	})
}

func TestReplay(t *testing.T) {
	fl, err := rt.LoadReplay()
	if err != nil {
		t.Fatal(err)
	}
	var c struct {
		Dir, Hex, Lit string
	}
	if err := stdjson.Unmarshal(fl.Case, &c); err != nil {
		t.Fatal(err)
	}
	f := &failer{t: t, sub: "replay"}
	if c.Dir == "encode" {
		b, _ := hex.DecodeString(c.Hex)
		encodeOne(f, string(b))
	} else {
		decodeOne(f, c.Lit)
	}
}

func TestWitness(t *testing.T) {
	known.RunWitness()
}
