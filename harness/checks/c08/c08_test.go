package c08

import (
	"bytes"
	stdjson "encoding/json"
	"fmt"
	"os"
	"reflect"
	"strings"
	"testing"
	"time"

	gojson "github.com/goccy/go-json"

	"verif/harness/corpus"
	_ "verif/harness/dec"
	"verif/harness/enc"
	"verif/harness/ref"
	"verif/harness/rt"
)

const prop = "C08"

func TestMain(m *testing.M) {
	code := m.Run()
	rt.Flush()
	os.Exit(code)
}

// Case describes one value of one corpus type and how it is built.
type Case struct {
	Type  string `json:"type"`            // registry name, or generic:map / generic:slice / generic:mixed / local:<i>
	Build string `json:"build"`           // fill | chain | cycle | local | generic
	Link  int    `json:"link,omitempty"`  // index into the type's self links
	Depth int    `json:"depth,omitempty"` // nesting depth of the chain / length of the cycle
	Fill  uint64 `json:"fill,omitempty"`  // filler seed of the nodes
	ByPtr bool   `json:"by_ptr,omitempty"`
	Entry string `json:"entry,omitempty"` // set in failures: the entry point that failed
	Decl  string `json:"decl,omitempty"`
}

var byName map[string]*corpus.Entry

func entry(name string) *corpus.Entry {
	if byName == nil {
		byName = map[string]*corpus.Entry{}
		for i := range Registry {
			byName[Registry[i].Name] = &Registry[i]
		}
	}
	return byName[name]
}

type failer struct {
	t     *testing.T
	fails int
}

func (f *failer) fail(sub string, c Case, format string, args ...any) {
	f.fails++
	if f.fails <= 3 {
		if e := entry(c.Type); e != nil {
			c.Decl = e.Decl
		}
		f.t.Error(rt.Fail(prop, sub, c, format, args...))
	}
}

// ---- value builders

func setLink(node reflect.Value, link corpus.Link, next reflect.Value, ifaceByValue bool) {
	f := node.FieldByName(link.Field)
	t := node.Type()
	switch link.Kind {
	case "ptr":
		f.Set(next.Addr())
	case "slice":
		s := reflect.MakeSlice(reflect.SliceOf(t), 1, 1)
		s.Index(0).Set(next)
		f.Set(s)
	case "sliceptr":
		s := reflect.MakeSlice(reflect.SliceOf(reflect.PointerTo(t)), 1, 1)
		s.Index(0).Set(next.Addr())
		f.Set(s)
	case "map":
		m := reflect.MakeMap(reflect.MapOf(reflect.TypeOf(""), reflect.PointerTo(t)))
		m.SetMapIndex(reflect.ValueOf("k"), next.Addr())
		f.Set(m)
	case "iface":
		if ifaceByValue {
			f.Set(next)
		} else {
			f.Set(next.Addr())
		}
	}
}

func clearLink(node reflect.Value, link corpus.Link) {
	f := node.FieldByName(link.Field)
	f.Set(reflect.Zero(f.Type()))
}

// chain builds root -> ... depth links ... -> leaf through one self link; each node is filled with a
// few random members first.  The value is acyclic.
func chain(e *corpus.Entry, link corpus.Link, depth int, seed uint64) reflect.Value {
	mk := func(i int) reflect.Value {
		return corpus.NewFiller(seed+uint64(i%7)*977, 6).Fill(e.Type)
	}
	cur := mk(depth)
	clearLink(cur, link)
	for i := depth - 1; i >= 0; i-- {
		parent := mk(i)
		setLink(parent, link, cur, i%2 == 1)
		cur = parent
	}
	return cur
}

// cycle builds a value that reaches itself again after n links.
func cycle(e *corpus.Entry, link corpus.Link, n int, seed uint64) reflect.Value {
	t := e.Type
	if link.Kind == "slice" {
		// a slice whose element's member is the same slice
		root := corpus.NewFiller(seed, 6).Fill(t)
		s := reflect.MakeSlice(reflect.SliceOf(t), 1, 1)
		cur := s
		for i := 1; i < n; i++ {
			nx := reflect.MakeSlice(reflect.SliceOf(t), 1, 1)
			cur.Index(0).FieldByName(link.Field).Set(nx)
			cur = nx
		}
		cur.Index(0).FieldByName(link.Field).Set(s)
		root.FieldByName(link.Field).Set(s)
		return root
	}
	nodes := make([]reflect.Value, n)
	for i := range nodes {
		nodes[i] = corpus.NewFiller(seed+uint64(i%7)*977, 6).Fill(t)
	}
	for i := range nodes {
		setLink(nodes[i], link, nodes[(i+1)%n], false)
	}
	return nodes[0]
}

func generic(kind string, depth int, cyclic bool) interface{} {
	switch kind {
	case "map":
		root := map[string]interface{}{"leaf": 1.5}
		cur := root
		for i := 0; i < depth; i++ {
			nx := map[string]interface{}{"n": float64(i), "s": "x<y"}
			cur["k"] = nx
			cur = nx
		}
		if cyclic {
			cur["k"] = root
		}
		return root
	case "slice":
		root := make([]interface{}, 2)
		root[0] = "a"
		cur := root
		for i := 0; i < depth; i++ {
			nx := make([]interface{}, 2)
			nx[0] = float64(i)
			cur[1] = nx
			cur = nx
		}
		if cyclic {
			cur[1] = root
		}
		return root
	default: // mixed: map -> slice -> *map ...
		root := map[string]interface{}{}
		var cur interface{} = root
		for i := 0; i < depth; i++ {
			var nx interface{}
			switch i % 3 {
			case 0:
				nx = make([]interface{}, 1)
			case 1:
				nx = &map[string]interface{}{"v": true}
			default:
				nx = map[string]interface{}{"z": nil}
			}
			put(cur, nx)
			cur = nx
		}
		if cyclic {
			put(cur, root)
		}
		return root
	}
}

func put(container, v interface{}) {
	switch c := container.(type) {
	case map[string]interface{}:
		c["k"] = v
	case *map[string]interface{}:
		(*c)["k"] = v
	case []interface{}:
		c[0] = v
	}
}

// ---- a marshaler whose result lives in memory it owns: a slice with spare capacity into its own array

const ownCanary = 0xA5

var ownBufs [8][96]byte

type BufMJ struct{ ID int }

func (b BufMJ) doc() string { return fmt.Sprintf(`{"buf":%d,"s":"x<y"}`, b.ID) }

func (b BufMJ) MarshalJSON() ([]byte, error) {
	buf := &ownBufs[b.ID%len(ownBufs)]
	for i := range buf {
		buf[i] = ownCanary
	}
	n := copy(buf[:], b.doc())
	return buf[:n], nil // len n, cap 96: the room behind the text is not the encoder's
}

type BufHolder struct {
	A int
	M BufMJ
	L []BufMJ
	I interface{}
	P *BufMJ
	Z string
}

// checkOwnBufs verifies that the texts handed out by BufMJ and the room behind them are untouched.
func checkOwnBufs(ids []int) string {
	for _, id := range ids {
		buf := &ownBufs[id%len(ownBufs)]
		doc := BufMJ{ID: id}.doc()
		if string(buf[:len(doc)]) != doc {
			return fmt.Sprintf("the bytes returned by MarshalJSON (owner %d) were modified: %q, were %q", id, buf[:len(doc)], doc)
		}
		for k := len(doc); k < len(buf); k++ {
			if buf[k] != ownCanary {
				return fmt.Sprintf("the encoder wrote behind the slice returned by MarshalJSON (owner %d): offset +%d holds %#x", id, k-len(doc), buf[k])
			}
		}
	}
	return ""
}

// ---- entry points (the four interpreters, both key-escape programs)

var noColor = &gojson.ColorScheme{}

type entryPoint struct {
	name string
	gj   func(v interface{}) ([]byte, error)
	std  func(v interface{}) ([]byte, error)
}

func stdNoHTML(v interface{}) ([]byte, error) {
	var buf bytes.Buffer
	e := stdjson.NewEncoder(&buf)
	e.SetEscapeHTML(false)
	err := e.Encode(v)
	return bytes.TrimSuffix(buf.Bytes(), []byte("\n")), err
}

var entries = []entryPoint{
	{"Marshal", func(v interface{}) ([]byte, error) { return gojson.Marshal(v) }, stdjson.Marshal},
	{"MarshalIndent", func(v interface{}) ([]byte, error) { return gojson.MarshalIndent(v, "", " ") }, stdjson.Marshal},
	{"Colorize", func(v interface{}) ([]byte, error) { return gojson.MarshalWithOption(v, gojson.Colorize(noColor)) }, stdjson.Marshal},
	{"Colorize+Indent", func(v interface{}) ([]byte, error) {
		return gojson.MarshalIndentWithOption(v, "", "\t", gojson.Colorize(noColor))
	}, stdjson.Marshal},
	{"Encoder(noHTMLEscape)", func(v interface{}) ([]byte, error) {
		var buf bytes.Buffer
		e := gojson.NewEncoder(&buf)
		e.SetEscapeHTML(false)
		err := e.Encode(v)
		return bytes.TrimSuffix(buf.Bytes(), []byte("\n")), err
	}, stdNoHTML},
	{"MarshalNoEscape", func(v interface{}) ([]byte, error) { return gojson.MarshalNoEscape(v) }, stdjson.Marshal},
}

const kfIndentMap = "KF-C08-indent-nested-map-memory"
const kfNoEscapeStack = "KF-C08-noescape-stack-growth"

// mapBomb: an indenting entry point on maps nested several hundred levels deep needs memory
// proportional to depth x output (every map level buffers its whole subtree, and indentation makes
// the output itself quadratic): open finding, constructed around while it is active.
func mapBomb(c Case, ep string, viaMap bool) bool {
	return rt.Active(kfIndentMap) && strings.Contains(ep, "Indent") && viaMap && c.Depth > 300 && !(c.Build == "cycle" || strings.HasSuffix(c.Type, "-cycle"))
}

// runValue encodes v through every entry point. cyclic: an error is expected from all of them.
func runValue(f *failer, c Case, v interface{}, cyclic bool, nontrivial bool, viaMap bool) {
	var want []byte
	var werr error
	haveStd := map[string][]byte{}
	for _, ep := range entries {
		c.Entry = ep.name
		if mapBomb(c, ep.name, viaMap) {
			rt.Excluded(kfIndentMap)
			continue
		}
		rt.Journal(c.Build, func() string { b, _ := stdjson.Marshal(c); return string(b) })
		var got []byte
		var gerr error
		pv := rt.Guard(func() { got, gerr = ep.gj(v) })
		rt.Count("cases/"+c.Build, 1)
		if pv != nil {
			f.fail("panic", c, "%s panics: %v", ep.name, pv)
			return
		}
		if cyclic {
			if gerr == nil {
				f.fail("cycle-not-reported", c, "%s returned %d bytes and no error for a cyclic value (%.120q…)", ep.name, len(got), got)
				return
			}
			continue
		}
		key := fmt.Sprintf("%p", ep.std)
		if w, ok := haveStd[key]; ok {
			want = w
		} else {
			want, werr = ep.std(v)
			if werr != nil {
				// the domain is what encoding/json can encode
				rt.Count("discarded_std_error", 1)
				return
			}
			haveStd[key] = want
		}
		if gerr != nil {
			f.fail("error", c, "%s returns error %v; encoding/json encodes the value (%d bytes)", ep.name, gerr, len(want))
			return
		}
		if d := ref.SameDocument(got, want); d != "" {
			f.fail("differs", c, "%s: %s\n go-json: %.500q\n std:     %.500q", ep.name, d, got, want)
			return
		}
	}
	if cyclic {
		rt.Label("cyclic value: error from every entry point")
	}
	if nontrivial {
		rt.NonTrivial(rt.Hash64(c.Type, c.Build, fmt.Sprint(c.Link, c.Depth, c.Fill, c.ByPtr)))
	}
	if rt.WantSample(c.Build) {
		rt.Sample(c.Build, map[string]any{"case": c, "output_bytes": len(want), "output_head": clip(string(want), 200)})
	} else {
		rt.Sample(c.Build, nil)
	}
}

func clip(s string, n int) string {
	if len(s) > n {
		return s[:n] + "…"
	}
	return s
}

func depthLabel(d int) string {
	switch {
	case d <= 3:
		return fmt.Sprintf("depth %d", d)
	case d < 999:
		return "depth 4..998"
	case d <= 1001:
		return fmt.Sprintf("depth %d", d)
	case d < 2000:
		return "depth 1002..1999"
	}
	return "depth 2000"
}

func runCase(f *failer, c Case) {
	if os.Getenv("VERIF_DEBUG") != "" {
		t0 := time.Now()
		defer func() {
			if d := time.Since(t0); d > 500*time.Millisecond {
				fmt.Printf("SLOW %v %+v\n", d, c)
			}
		}()
	}
	switch c.Build {
	case "generic":
		kind := strings.TrimPrefix(c.Type, "generic:")
		cyclic := strings.HasSuffix(kind, "-cycle")
		kind = strings.TrimSuffix(kind, "-cycle")
		v := generic(kind, c.Depth, cyclic)
		runValue(f, c, v, cyclic, c.Depth >= 1, kind != "slice")
		rt.Label("generic " + depthLabel(c.Depth))
		return
	case "bufmj":
		v := BufHolder{A: 1, M: BufMJ{ID: 1}, L: []BufMJ{{ID: 2}, {ID: 3}}, I: BufMJ{ID: 4}, P: &BufMJ{ID: 5}, Z: "z"}
		ids := []int{1, 2, 3, 4, 5}
		for _, ep := range entries {
			c.Entry = ep.name
			rt.Journal("bufmj", func() string { b, _ := stdjson.Marshal(c); return string(b) })
			var got []byte
			var gerr error
			pv := rt.Guard(func() { got, gerr = ep.gj(v) })
			rt.Count("cases/bufmj", 1)
			if pv != nil || gerr != nil {
				f.fail("bufmj", c, "%s: panic=%v err=%v", ep.name, pv, gerr)
				return
			}
			if msg := checkOwnBufs(ids); msg != "" {
				f.fail("marshaler-result-written", c, "%s: %s", ep.name, msg)
				return
			}
			// a following encoding that goes through the shared marshal buffer must not reach them either
			if _, err := gojson.MarshalIndent(map[string]interface{}{"k": stdjson.RawMessage(`{"other":"XXXXXXXXXXXXXXXXXXXXXXXXXXXXXXXXXXXXXXXXXXXXXXXXXXXXXXXXXXXX"}`)}, "", " "); err != nil {
				f.fail("bufmj", c, "follow-up MarshalIndent: %v", err)
				return
			}
			if msg := checkOwnBufs(ids); msg != "" {
				f.fail("marshaler-result-written", c, "after a later MarshalIndent following %s: %s", ep.name, msg)
				return
			}
			want, _ := ep.std(v)
			if d := ref.SameDocument(got, want); d != "" {
				f.fail("differs", c, "%s: %s", ep.name, d)
				return
			}
		}
		rt.NonTrivial(rt.Hash64("bufmj", fmt.Sprint(c.Fill)))
		rt.Label("marshaler result with spare capacity in memory it owns")
		return
	case "local":
		var i int
		fmt.Sscanf(c.Type, "local:%d", &i)
		for _, variant := range []string{"marshal", "indent", "noescape", "noescape-ptr", "ptr"} {
			c.Entry = variant
			if strings.HasPrefix(variant, "noescape") && rt.Active(kfNoEscapeStack) {
				rt.Excluded(kfNoEscapeStack)
				continue
			}
			rt.Journal("local", func() string { b, _ := stdjson.Marshal(c); return string(b) })
			var got, want []byte
			var err error
			pv := rt.Guard(func() { got, want, err = Locals[i%len(Locals)](variant) })
			rt.Count("cases/local", 1)
			if pv != nil {
				f.fail("local-panic", c, "%s of a frame-local value panics: %v", variant, pv)
				return
			}
			if err != nil {
				f.fail("local-error", c, "%s of a frame-local value: error %v", variant, err)
				return
			}
			if d := ref.SameDocument(got, want); d != "" {
				f.fail("local-differs", c, "%s of a frame-local value whose first member grows the stack and collects garbage: %s\n go-json: %.300q\n std:     %.300q", variant, d, got, want)
				return
			}
		}
		rt.NonTrivial(rt.Hash64(c.Type, "local"))
		rt.Label("frame-local value with stack-growing marshaler")
		return
	}
	e := entry(c.Type)
	if e == nil {
		f.t.Fatalf("type %q is not in this binary's registry (corpus seed %d)", c.Type, CorpusSeed)
	}
	var v reflect.Value
	cyclic := false
	viaMap := false
	if len(e.Links) > 0 && c.Build != "fill" {
		viaMap = e.Links[c.Link%len(e.Links)].Kind == "map"
	}
	switch c.Build {
	case "fill":
		v = corpus.NewFiller(c.Fill, 150).Fill(e.Type)
	case "chain":
		v = chain(e, e.Links[c.Link%len(e.Links)], c.Depth, c.Fill)
		rt.Label("chain " + depthLabel(c.Depth))
		rt.Label("chain through " + e.Links[c.Link%len(e.Links)].Kind)
	case "cycle":
		v = cycle(e, e.Links[c.Link%len(e.Links)], c.Depth, c.Fill)
		cyclic = true
		rt.Label("cycle through " + e.Links[c.Link%len(e.Links)].Kind)
	}
	var iv interface{}
	if c.ByPtr && e.Type.Kind() != reflect.Ptr { // **T: pointer chains are an open encoder finding, constructed around
		iv = v.Addr().Interface()
	} else {
		iv = v.Interface()
	}
	if e.Methods != "" {
		rt.Label("type with marshal methods: " + e.Methods)
	}
	runValue(f, c, iv, cyclic, len(e.Links) > 0, viaMap)
}

func TestCheck(t *testing.T) {
	f := &failer{t: t}
	fl := corpus.NewFiller(rt.SubSeed("c08"), 1<<30)
	depths := []int{0, 1, 2, 3, 10, 100, 999, 1000, 1001, 1500, 2000}
	cyc := []int{1, 2, 3, 50, 1001, 1500}
	n := len(Registry)
	rt.Count("corpus_types", int64(n))
	idx := 0
	for k := 0; k < n && f.fails <= 3; k++ {
		if k%rt.E.NShards != rt.E.Shard {
			continue // each type belongs to one shard
		}
		e := &Registry[k]
		idx++
		vals := rt.N(3, 12)
		for j := 0; j < vals && f.fails <= 3; j++ {
			runCase(f, Case{Type: e.Name, Build: "fill", Fill: fl.Next64(), ByPtr: j%2 == 0})
		}
		for li := range e.Links {
			for di, d := range depths {
				if e.Methods != "" && d > 100 {
					continue // marshal methods re-encode their subtree at every level (natively recursive, quadratic): keep those chains short
				}
				// quick tier: small depths for every link, one large depth per (type, link) in rotation
				if !rt.Thorough() && d > 10 && (idx+li)%6 != di-5 {
					continue
				}
				runCase(f, Case{Type: e.Name, Build: "chain", Link: li, Depth: d, Fill: fl.Next64(), ByPtr: (d+li)%2 == 0})
			}
			for ci, d := range cyc {
				if e.Methods != "" {
					break // a marshal method that re-encodes its receiver recurses for ever on a cyclic value, in any encoder
				}
				if !rt.Thorough() && d > 1 && (idx+li)%5 != ci-1 {
					continue // quick tier: length 1 for every link, one other length per (type, link) in rotation
				}
				runCase(f, Case{Type: e.Name, Build: "cycle", Link: li, Depth: d, Fill: fl.Next64(), ByPtr: true})
			}
		}
	}
	// generic interface-only values and frame-local values: every shard takes a slice of them
	for i, kind := range []string{"map", "slice", "mixed"} {
		for j, d := range depths {
			if (i+j)%rt.E.NShards == rt.E.Shard%len(depths) || rt.Thorough() {
				runCase(f, Case{Type: "generic:" + kind, Build: "generic", Depth: d})
			}
		}
		for j, d := range cyc {
			if (i+j)%rt.E.NShards == rt.E.Shard%len(cyc) || rt.Thorough() {
				runCase(f, Case{Type: "generic:" + kind + "-cycle", Build: "generic", Depth: d})
			}
		}
	}
	runCase(f, Case{Type: "bufmj", Build: "bufmj", Fill: uint64(rt.E.Shard)})
	for i := range Locals {
		if i%rt.E.NShards == rt.E.Shard {
			runCase(f, Case{Type: fmt.Sprintf("local:%d", i), Build: "local"})
		}
	}
	hc := hookCounters()
	for k, v := range hc {
		rt.Count("hook/"+k, int64(v))
	}
	if strings.Contains(os.Getenv("VERIF_VARIANT"), "hooks") && hc["encoder_slot_checks"] == 0 {
		rt.Count("harness_error", 1)
		t.Errorf("harness: the verif hooks did not run (%v)", hc)
	}
}

func TestReplay(t *testing.T) {
	fl, err := rt.LoadReplay()
	if err != nil {
		t.Fatal(err)
	}
	var c Case
	if err := stdjson.Unmarshal(bytes.TrimSpace(fl.Case), &c); err != nil {
		t.Fatal(err)
	}
	runCase(&failer{t: t}, c)
}

func TestWitness(t *testing.T) {
	enc.RunWitness(t)
}
