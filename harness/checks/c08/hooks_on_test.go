//go:build verif

package c08

import gojson "github.com/goccy/go-json"

func hookCounters() map[string]uint64 { return gojson.VerifCounters() }
