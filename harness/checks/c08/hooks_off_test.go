//go:build !verif

package c08

func hookCounters() map[string]uint64 { return nil }
