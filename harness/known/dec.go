package known

import (
	"encoding/json"
	"strings"

	"verif/harness/gen"
	"verif/harness/jsongen"
	"verif/harness/ref"
	"verif/harness/rt"
)

// Decoder-side finding ids.
const (
	DecNameConflict = "KF-DEC-field-name-conflict"
	DecStringTag    = "FX-DEC-string-tag-on-unsupported-kind" // fixed: the selector can never be active again
	DecStringTagUM  = "KF-DEC-string-tag-on-unmarshaler"
	DecCaseFoldKey  = "FX-DEC-case-insensitive-key-match" // fixed: the selector can never be active again
	DecSliceReuse   = "KF-DEC-slice-reuse-null-element"
)

// dedupDec renames fields so that no two fields of a struct (including its embedded structs) share a
// JSON name, compared case-insensitively.
func dedupDec(s *gen.TypeSpec, seen map[string]bool, counter *int) {
	for i := range s.Fields {
		f := &s.Fields[i]
		u := underPtr(f.T)
		if f.Embedded && u.K == "struct" && !namedByTag(f) {
			dedupDec(u, seen, counter)
			continue
		}
		if f.Unexp {
			continue
		}
		name, opts := jsonName(f)
		if name == "" {
			continue
		}
		if seen[strings.ToLower(name)] {
			*counter++
			f.HasTag, f.Tag = true, "v"+string(rune('a'+*counter%26))+string(rune('0'+*counter/26%10))+opts
			name, _ = jsonName(f)
			rt.Excluded(DecNameConflict)
		}
		seen[strings.ToLower(name)] = true
	}
}

// stringTagStd: the kinds for which encoding/json honours ",string": string, bool, integer and float
// kinds (and named types of those kinds), directly or behind exactly one pointer.
func stringTagStd(t *gen.TypeSpec) bool {
	if t.K == "ptr" {
		t = t.Elem
	}
	switch t.K {
	case "bool", "int", "int8", "int16", "int32", "int64", "uint", "uint8", "uint16", "uint32", "uint64", "uintptr", "float32", "float64", "string":
		return true
	}
	return isLeaf(t, "NStr", "NInt")
}

// RepairDecSpec rewrites the parts of a destination type that fall under an active decoder-side
// finding (construct-around), counted per finding.
func RepairDecSpec(s *gen.TypeSpec) {
	if rt.Active(DecStringTag) {
		s.Walk(func(n *gen.TypeSpec) {
			for i := range n.Fields {
				f := &n.Fields[i]
				if f.HasTag && strings.Contains(f.Tag, ",string") && !stringTagStd(f.T) {
					f.Tag = strings.Replace(f.Tag, ",string", "", 1)
					rt.Excluded(DecStringTag)
				}
			}
		})
	}
	if rt.Active(DecStringTagUM) {
		s.Walk(func(n *gen.TypeSpec) {
			for i := range n.Fields {
				f := &n.Fields[i]
				u := f.T
				if u.K == "ptr" {
					u = u.Elem
				}
				if f.HasTag && strings.Contains(f.Tag, ",string") && isLeaf(u, "IntUT") {
					f.Tag = strings.Replace(f.Tag, ",string", "", 1)
					rt.Excluded(DecStringTagUM)
				}
			}
		})
	}
	if rt.Active(DecNameConflict) {
		s.Walk(func(n *gen.TypeSpec) {
			if n.K == "struct" {
				c := 0
				dedupDec(n, map[string]bool{}, &c)
			}
		})
	}
}

// DecValCfg adapts generation of pre-populated destinations to active findings.
func DecValCfg(c gen.ValCfg) gen.ValCfg {
	return c
}

// DecTypedCfg adapts type-directed document generation to active findings.
func DecTypedCfg(c jsongen.TypedCfg) jsongen.TypedCfg {
	return c
}

// DecExpect returns the id of an active expect-mode finding whose selector (a predicate over the
// destination type, the document, the entry point and whether the destination was pre-populated)
// matches the case, or "".
func DecExpect(spec *gen.TypeSpec, doc []byte, entry string, prepop bool) string {
	if rt.Active(DecCaseFoldKey) && hasCaseVariantKey(spec, doc) {
		return DecCaseFoldKey
	}
	if rt.Active(DecSliceReuse) {
		anySlice := spec.Has(func(n *gen.TypeSpec) bool { return n.K == "slice" || n.K == "leaf:NSlice" })
		// elements that were there before (pre-populated destination, or written by an earlier duplicate
		// member) and that keep state when decoded into again: null leaves them alone, structs keep members
		// the document does not name, maps merge, pointers keep their pointee, recording unmarshalers count
		stateful := spec.Has(func(n *gen.TypeSpec) bool {
			if n.K != "slice" || n.Elem == nil {
				return false
			}
			e := n.Elem
			return e.K == "struct" || e.K == "map" || e.K == "ptr" || e.K == "slice" || e.K == "array" || e.K == "iface" || strings.HasPrefix(e.K, "leaf:")
		})
		if anySlice && (hasNullArrayElement(doc) || (stateful && (prepop || hasDuplicateKey(doc)))) {
			return DecSliceReuse
		}
	}
	return ""
}

// hasDuplicateKey: some object of the document has two members with the same (raw) key text.
func hasDuplicateKey(doc []byte) bool {
	root, err := ref.Parse(doc)
	if err != nil {
		return false
	}
	var walk func(n *ref.Node) bool
	walk = func(n *ref.Node) bool {
		if n == nil {
			return false
		}
		if n.Kind == 'o' {
			seen := map[string]bool{}
			for _, k := range n.Keys {
				if seen[strings.ToLower(k)] {
					return true
				}
				seen[strings.ToLower(k)] = true
			}
		}
		for _, e := range n.Elems {
			if walk(e) {
				return true
			}
		}
		return false
	}
	return walk(root)
}

// hasNullArrayElement: the document contains null as an element of an array.
func hasNullArrayElement(doc []byte) bool {
	toks, err := ref.Tokens(doc)
	if err != nil {
		return false
	}
	var stack []byte
	for i, t := range toks {
		switch t.Kind {
		case ref.TArrOpen, ref.TObjOpen:
			stack = append(stack, t.Kind)
		case ref.TArrClose, ref.TObjClose:
			stack = stack[:len(stack)-1]
		case ref.TNull:
			if len(stack) > 0 && stack[len(stack)-1] == ref.TArrOpen && i > 0 && (toks[i-1].Kind == ref.TArrOpen || toks[i-1].Kind == ref.TComma) {
				return true
			}
		}
	}
	return false
}

var leafFieldNames = map[string][]string{
	"NStruct": {"a", "b"}, "EmbA": {"A", "x"}, "EmbB": {"A", "Y"}, "EmbC": {"x", "Ab"},
	"ValMJ": {"A", "S"}, "PtrMJ": {"A", "S"}, "ValMT": {"A", "S"}, "PtrMT": {"A", "S"},
}

// hasCaseVariantKey: the document contains an object key that differs from a field's JSON name of
// the destination type only by letter case (selector of DecCaseFoldKey).
func hasCaseVariantKey(spec *gen.TypeSpec, doc []byte) bool {
	names := map[string]map[string]bool{} // lower -> exact spellings
	add := func(n string) {
		l := strings.ToLower(n)
		if names[l] == nil {
			names[l] = map[string]bool{}
		}
		names[l][n] = true
	}
	spec.Walk(func(n *gen.TypeSpec) {
		for i := range n.Fields {
			if n.Fields[i].Unexp {
				continue
			}
			if name, _ := jsonName(&n.Fields[i]); name != "" {
				add(name)
			}
		}
		if strings.HasPrefix(n.K, "leaf:") {
			for _, f := range leafFieldNames[n.K[5:]] {
				add(f)
			}
		}
	})
	toks, err := ref.Tokens(doc)
	if err != nil {
		return false
	}
	for _, t := range toks {
		if !t.Key {
			continue
		}
		var k string
		if json.Unmarshal(doc[t.Start:t.End], &k) != nil {
			continue
		}
		if ex := names[strings.ToLower(k)]; ex != nil && (!ex[k] || len(ex) > 1) {
			return true // some field name (in some struct of the type) equals the key only up to case
		}
	}
	return false
}

// Witnesses is the registry of known-finding witnesses: id -> func() (stillFails bool, detail string).
// Packages enc and dec and the check packages register into it.
var Witnesses = map[string]func() (bool, string){}

// DecWitnesses is the same registry (kept for the decoder-side packages).
var DecWitnesses = Witnesses

// RunWitness runs the witness named by the environment.  A witness that is not registered in this
// check's binary is reported as not reproducing (the finding then stays inactive in this check).
func RunWitness() {
	f, ok := Witnesses[rt.E.Witness]
	if !ok {
		rt.WitnessResult(false, "witness not registered in this check")
		return
	}
	still, detail := f()
	rt.WitnessResult(still, detail)
}

// RunDecWitness is kept for compatibility: it runs the witness if registered.
func RunDecWitness() bool {
	if _, ok := Witnesses[rt.E.Witness]; !ok {
		return false
	}
	RunWitness()
	return true
}
