package known

import (
	"strings"

	"verif/harness/gen"
	"verif/harness/rt"
)

// Decoder-side finding ids.
const (
	DecNameConflict = "KF-DEC-field-name-conflict"
	DecStringTag    = "KF-DEC-string-tag-on-unsupported-kind"
)

// dedupDec renames fields so that no two fields of a struct (including its embedded structs) share a
// JSON name, compared case-insensitively.
func dedupDec(s *gen.TypeSpec, seen map[string]bool, counter *int) {
	for i := range s.Fields {
		f := &s.Fields[i]
		u := underPtr(f.T)
		if f.Embedded && u.K == "struct" && !(f.HasTag && f.Tag != "" && !strings.HasPrefix(f.Tag, ",")) {
			dedupDec(u, seen, counter)
			continue
		}
		if f.Unexp {
			continue
		}
		name, opts := jsonName(f)
		if name == "" {
			continue
		}
		if seen[strings.ToLower(name)] {
			*counter++
			f.HasTag, f.Tag = true, "v"+string(rune('a'+*counter%26))+string(rune('0'+*counter/26%10))+opts
			name, _ = jsonName(f)
			rt.Excluded(DecNameConflict)
		}
		seen[strings.ToLower(name)] = true
	}
}

// stringTagStd: the kinds for which encoding/json honours ",string": string, bool, integer and float
// kinds (and named types of those kinds), directly or behind exactly one pointer.
func stringTagStd(t *gen.TypeSpec) bool {
	if t.K == "ptr" {
		t = t.Elem
	}
	switch t.K {
	case "bool", "int", "int8", "int16", "int32", "int64", "uint", "uint8", "uint16", "uint32", "uint64", "uintptr", "float32", "float64", "string":
		return true
	}
	return isLeaf(t, "NStr", "NInt")
}

// RepairDecSpec rewrites the parts of a destination type that fall under an active decoder-side
// finding (construct-around), counted per finding.
func RepairDecSpec(s *gen.TypeSpec) {
	if rt.Active(DecStringTag) {
		s.Walk(func(n *gen.TypeSpec) {
			for i := range n.Fields {
				f := &n.Fields[i]
				if f.HasTag && strings.Contains(f.Tag, ",string") && !stringTagStd(f.T) {
					f.Tag = strings.Replace(f.Tag, ",string", "", 1)
					rt.Excluded(DecStringTag)
				}
			}
		})
	}
	if rt.Active(DecNameConflict) {
		s.Walk(func(n *gen.TypeSpec) {
			if n.K == "struct" {
				c := 0
				dedupDec(n, map[string]bool{}, &c)
			}
		})
	}
}

// DecWitnesses: id -> func() (stillFails bool, detail string); filled by package dec.
var DecWitnesses = map[string]func() (bool, string){}

// RunDecWitness runs the witness named by the environment if it is a decoder-side one.
func RunDecWitness() bool {
	f, ok := DecWitnesses[rt.E.Witness]
	if !ok {
		return false
	}
	still, detail := f()
	rt.WitnessResult(still, detail)
	return true
}
