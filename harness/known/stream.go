package known

import (
	"bytes"

	"verif/harness/ref"
)

// Stream-side finding ids.
const (
	StreamEscapedKeySplit = "FX-STREAM-escaped-key-split-by-read" // fixed: kept as a regression witness only
)

// Cuts turns piece lengths into the sorted list of byte offsets at which a read ends (offsets
// strictly inside [1,len-1]).
func Cuts(n int, pieces []int) []int {
	var cuts []int
	pos := 0
	for _, p := range pieces {
		pos += p
		if pos >= n {
			break
		}
		if pos > 0 && (len(cuts) == 0 || cuts[len(cuts)-1] != pos) {
			cuts = append(cuts, pos)
		}
	}
	return cuts
}

// TokensOfStream tokenises a concatenation of valid documents; offsets are absolute.
func TokensOfStream(text []byte) []ref.Tok {
	var all []ref.Tok
	off := 0
	for off < len(text) {
		rest := text[off:]
		trim := len(rest) - len(bytes.TrimLeft(rest, " \t\r\n"))
		if trim == len(rest) {
			break
		}
		toks, end, err := ref.Scan(rest, ref.Relax{}, true)
		if err != nil {
			break
		}
		for _, t := range toks {
			t.Start += off
			t.End += off
			all = append(all, t)
		}
		off += end
	}
	return all
}

// CutInsideEscapedKey: some read boundary falls strictly inside an object-key token that contains a
// backslash escape (selector of StreamEscapedKeySplit).
func CutInsideEscapedKey(text []byte, cuts []int) bool {
	if len(cuts) == 0 {
		return false
	}
	for _, t := range TokensOfStream(text) {
		if !t.Key || bytes.IndexByte(text[t.Start:t.End], '\\') < 0 {
			continue
		}
		for _, c := range cuts {
			if c > t.Start && c < t.End {
				return true
			}
		}
	}
	return false
}
