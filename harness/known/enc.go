// Package known holds the selectors of known findings: pure predicates over (and repairs of)
// generated cases.  A selector never looks at what go-json did.
package known

import (
	"reflect"
	"strings"

	"verif/harness/gen"
	"verif/harness/rt"
)

// Encoder-side finding ids (see /verif/known_findings.json).
const (
	EncDirectAggregate   = "KF-ENC-pointer-shaped-aggregate"
	EncMapKeyStringText  = "FX-ENC-mapkey-string-textmarshaler" // fixed: the selector can never be active again
	EncOmitemptyMarsh    = "KF-ENC-omitempty-on-marshaler"
	EncMapKindMarsh      = "FX-ENC-map-kind-marshaler"
	EncNilPtrValueText   = "FX-ENC-nil-pointer-to-textmarshaler" // fixed: the selector can never be active again
	EncPtrRecvNonAddr    = "KF-ENC-pointer-receiver-on-unaddressable"
	EncMapOrderEscaped   = "KF-ENC-map-order-by-escaped-key"
	EncStringTagOnOthers = "FX-ENC-string-tag-on-unsupported-kind" // fixed: the selector can never be active again
	EncOmitemptyArray0   = "FX-ENC-omitempty-zero-length-array"    // fixed: the selector can never be active again
	EncOmitemptyPtrPtr   = "KF-ENC-omitempty-pointer-to-nil-pointer"
	EncEmbeddedConflict  = "KF-ENC-embedded-name-conflict"
	EncNilPtrFirstMarsh  = "FX-ENC-nil-pointer-to-struct-starting-with-pointer-receiver-marshaler"
)

func isLeaf(s *gen.TypeSpec, names ...string) bool {
	if !strings.HasPrefix(s.K, "leaf:") {
		return false
	}
	for _, n := range names {
		if s.K[5:] == n {
			return true
		}
	}
	return false
}

// direct reports whether values of the type are stored directly in an interface word
// (pointer-shaped types).
func direct(s *gen.TypeSpec) bool {
	switch s.K {
	case "ptr", "map":
		return true
	case "array":
		return s.N == 1 && direct(s.Elem)
	case "struct":
		return len(s.Fields) == 1 && direct(s.Fields[0].T)
	}
	return isLeaf(s, "MapMJ", "NMap")
}

// badDirect: pointer-shaped types other than plain pointers, maps and single-field structs whose
// field is a pointer to a non-pointer or a map (those go-json handles).
func badDirect(s *gen.TypeSpec) bool {
	if !direct(s) {
		return false
	}
	switch s.K {
	case "ptr", "map":
		return false
	case "struct":
		if s.Fields[0].Unexp || (s.Fields[0].HasTag && s.Fields[0].Tag == "-") || s.Fields[0].Embedded {
			return true // the only (pointer-shaped) field is not encoded: nil gives null instead of {}
		}
		f := s.Fields[0].T
		if f.K == "map" || isLeaf(f, "MapMJ", "NMap") {
			return false
		}
		if f.K == "ptr" && simpleScalar(f.Elem) {
			return false
		}
		return true
	case "array":
		return true
	}
	return false
}

func nilable(t *gen.TypeSpec) bool {
	switch t.K {
	case "ptr", "map", "slice", "iface", "bytes", "raw":
		return true
	}
	return isLeaf(t, "NMap", "NSlice", "NBytes", "SliceMJ", "MapMJ")
}

func simpleScalar(t *gen.TypeSpec) bool {
	switch t.K {
	case "bool", "int", "int8", "int16", "int32", "int64", "uint", "uint8", "uint16", "uint32", "uint64", "uintptr", "float32", "float64", "string", "bytes", "number":
		return true
	}
	return isLeaf(t, "NStr", "NInt", "NBytes", "NSlice")
}

// hasPlainField: the struct certainly produces at least one member (an exported, non-embedded field
// that is not "-" and not omitempty).
func hasPlainField(s *gen.TypeSpec) bool {
	for _, f := range s.Fields {
		if !f.Unexp && !f.Embedded && !(f.HasTag && (f.Tag == "-" || strings.Contains(f.Tag, ",omitempty"))) {
			return true
		}
	}
	return false
}

var _ = byValueMarshaler

// byValueMarshaler: the type is, or contains by value (through struct fields and array elements),
// a type implementing Marshaler/TextMarshaler (incl. RawMessage and time.Time).
func byValueMarshaler(e *gen.TypeSpec) bool {
	switch {
	case e.K == "raw" || e.K == "time" || isLeaf(e, marshalerLeaves...):
		return true
	case e.K == "struct":
		for _, f := range e.Fields {
			if byValueMarshaler(f.T) {
				return true
			}
		}
	case e.K == "array":
		return byValueMarshaler(e.Elem)
	}
	return false
}

// ptrPtrBad: **map, **T where T (or *T) implements Marshaler/TextMarshaler (incl. RawMessage, time.Time).
func ptrPtrBad(s *gen.TypeSpec) bool {
	if s.K != "ptr" || s.Elem.K != "ptr" {
		return false
	}
	return true // every pointer-to-pointer chain (see the finding text)
}

var marshalerLeaves = []string{"ValMJ", "PtrMJ", "ValMT", "PtrMT", "IntMJ", "StrMT", "SliceMJ", "MapMJ", "BoolMT", "RoundMJ", "KeyMT", "IntKeyMT"}

func underPtr(s *gen.TypeSpec) *gen.TypeSpec {
	for s.K == "ptr" {
		s = s.Elem
	}
	return s
}

// namedByTag: the field carries a tag with a valid name (an embedded struct so tagged is an ordinary member).
func namedByTag(f *gen.FieldSpec) bool {
	if !f.HasTag || f.Tag == "-" {
		return false
	}
	n, _ := gen.TagName(f.Tag)
	return n != ""
}

// jsonName returns the member name encoding/json would use for a field ("" = not encoded by name).
func jsonName(f *gen.FieldSpec) (name string, opts string) {
	if f.HasTag {
		if f.Tag == "-" {
			return "", ""
		}
		name, opts = gen.TagName(f.Tag)
	}
	if name == "" {
		name = f.Name
	}
	return name, opts
}

// dedupEmbedded renames fields so that no two fields of a struct and its embedded structs (any depth)
// share a JSON name.
func dedupEmbedded(s *gen.TypeSpec, seen map[string]bool, counter *int) {
	for i := range s.Fields {
		f := &s.Fields[i]
		u := underPtr(f.T)
		if f.Embedded && u.K == "struct" && !namedByTag(f) {
			dedupEmbedded(u, seen, counter)
			continue
		}
		if f.Unexp {
			continue
		}
		name, opts := jsonName(f)
		if name == "" {
			continue
		}
		if seen[name] {
			*counter++
			f.HasTag, f.Tag = true, "u"+string(rune('a'+*counter%26))+string(rune('0'+*counter/26%10))+opts
			name, _ = jsonName(f)
			rt.Excluded(EncEmbeddedConflict)
		}
		seen[name] = true
	}
}

func hasEmbedded(s *gen.TypeSpec) bool {
	for _, f := range s.Fields {
		if f.Embedded {
			return true
		}
	}
	return false
}

// RepairEncSpec rewrites the parts of a generated type that fall under an active known finding so
// that the rest of the case can still be checked ("construct around"); every repair is counted.
func RepairEncSpec(s *gen.TypeSpec) {
	repairEncSpec1(s)
	if rt.Active(EncEmbeddedConflict) {
		s.Walk(func(n *gen.TypeSpec) {
			if n.K == "struct" && hasEmbedded(n) {
				c := 0
				dedupEmbedded(n, map[string]bool{}, &c)
			}
		})
		repairEncSpec1(s)
	}
}

func repairEncSpec1(s *gen.TypeSpec) {
	if rt.Active(EncPtrRecvNonAddr) {
		// pointer-receiver marshalers as array elements only behind a pointer
		var fix func(n *gen.TypeSpec)
		fix = func(n *gen.TypeSpec) { // n is stored by value inside an array
			switch {
			case isLeaf(n, "PtrMJ", "PtrMT"):
				k := n.K
				*n = gen.TypeSpec{K: "ptr", Elem: &gen.TypeSpec{K: k}}
				rt.Excluded(EncPtrRecvNonAddr)
			case n.K == "struct":
				for i := range n.Fields {
					fix(n.Fields[i].T)
				}
			case n.K == "array":
				fix(n.Elem)
			}
		}
		s.Walk(func(n *gen.TypeSpec) {
			if n.K == "array" {
				fix(n.Elem)
			}
		})
	}
	s.Walk(func(n *gen.TypeSpec) {
		if rt.Active(EncDirectAggregate) {
			for ptrPtrBad(n) {
				*n = *n.Elem
				rt.Excluded(EncDirectAggregate)
			}
		}
		if rt.Active(EncMapKindMarsh) && isLeaf(n, "MapMJ") {
			n.K = "leaf:ValMJ"
			rt.Excluded(EncMapKindMarsh)
		}
		if n.K == "map" && rt.Active(EncMapKeyStringText) && isLeaf(n.Key, "StrMT") {
			n.Key = &gen.TypeSpec{K: "leaf:NStr"}
			rt.Excluded(EncMapKeyStringText)
		}
		if n.K == "struct" && rt.Active(EncNilPtrFirstMarsh) && len(n.Fields) > 0 && isLeaf(n.Fields[0].T, "PtrMJ", "PtrMT") {
			n.Fields = append([]gen.FieldSpec{{Name: "Pad0", T: &gen.TypeSpec{K: "int8"}, HasTag: true, Tag: "-"}}, n.Fields...)
			rt.Excluded(EncNilPtrFirstMarsh)
		}
		if n.K == "struct" {
			for i := range n.Fields {
				f := &n.Fields[i]
				u := underPtr(f.T)
				if rt.Active(EncOmitemptyMarsh) && f.HasTag && strings.Contains(f.Tag, ",omitempty") && isLeaf(u, marshalerLeaves...) {
					f.Tag = strings.Replace(f.Tag, ",omitempty", "", 1)
					rt.Excluded(EncOmitemptyMarsh)
				}
				if rt.Active(EncOmitemptyArray0) && f.HasTag && strings.Contains(f.Tag, ",omitempty") && u.K == "array" && u.N == 0 && f.T.K == "array" {
					f.Tag = strings.Replace(f.Tag, ",omitempty", "", 1)
					rt.Excluded(EncOmitemptyArray0)
				}
				if rt.Active(EncOmitemptyPtrPtr) && f.HasTag && strings.Contains(f.Tag, ",omitempty") && f.T.K == "ptr" && nilable(f.T.Elem) {
					f.Tag = strings.Replace(f.Tag, ",omitempty", "", 1)
					rt.Excluded(EncOmitemptyPtrPtr)
				}
				if rt.Active(EncStringTagOnOthers) && f.HasTag && strings.Contains(f.Tag, ",string") && stringTagDeepPtr(f.T) {
					f.Tag = strings.Replace(f.Tag, ",string", "", 1)
					rt.Excluded(EncStringTagOnOthers)
				}
			}
		}
	})
}

// stringTagDeepPtr: ",string" on a pointer of depth >= 2 to a kind that supports the option
// (encoding/json honours the option through one pointer level only; go-json quotes at any depth).
func stringTagDeepPtr(t *gen.TypeSpec) bool {
	d := 0
	for t.K == "ptr" {
		t = t.Elem
		d++
	}
	if d < 2 {
		return false
	}
	switch t.K {
	case "bool", "int", "int8", "int16", "int32", "int64", "uint", "uint8", "uint16", "uint32", "uint64", "uintptr", "float32", "float64", "string", "number":
		return true
	}
	return isLeaf(t, "NStr", "NInt")
}

// EncValCfg adapts value generation to active findings.
func EncValCfg(c gen.ValCfg) gen.ValCfg {
	if rt.Active(EncNilPtrValueText) {
		for _, n := range []string{"ValMT", "StrMT", "BoolMT", "KeyMT", "IntKeyMT", "PtrMT"} {
			c.NoNilPtrTo = append(c.NoNilPtrTo, gen.Leaves[n])
		}
	}
	if rt.Active(EncMapOrderEscaped) {
		c.PlainMapKeys = true
	}
	return c
}

var _ = reflect.TypeOf

// EncReach adjusts how the value is reached when taking its address would build a shape covered by
// an active finding (&(*map) = **map, &(*T-with-marshaler), &[1]*T stays as it is: a pointer is fine).
func EncReach(s *gen.TypeSpec, reach string) string {
	if reach == "ptr" && rt.Active(EncDirectAggregate) && ptrPtrBad(&gen.TypeSpec{K: "ptr", Elem: s}) {
		rt.Excluded(EncDirectAggregate)
		return "direct"
	}
	return reach
}
