package corpus

import (
	stdjson "encoding/json"
	"math"
	"reflect"
)

// Filler builds a pseudo-random value of any Go type by reflection, as a pure function of its seed
// (splitmix64).  The total number of nodes is bounded, so recursive types terminate.
type Filler struct {
	s      uint64
	Budget int
}

func NewFiller(seed uint64, budget int) *Filler { return &Filler{s: seed, Budget: budget} }

func (f *Filler) next() uint64 {
	f.s += 0x9e3779b97f4a7c15
	z := f.s
	z = (z ^ (z >> 30)) * 0xbf58476d1ce4e5b9
	z = (z ^ (z >> 27)) * 0x94d049bb133111eb
	return z ^ (z >> 31)
}

// next64 style accessor for callers that need seeds.
func (f *Filler) Next64() uint64 { return f.next() | 1 }

func (f *Filler) Intn(n int) int { return int(f.next() % uint64(n)) }

var fillStrings = []string{"", "a", "hello", "x<y>&z", "q\"uote\\", "tab\there", "é", "日本", " ", "0123456789abcdef0123456789abcdef", "nul\x00l", "𝄞"}
var fillKeys = []string{"a", "b", "k1", "key_2", "Zz", "m-n", "x.y", "q~"}
var fillInts = []int64{0, 1, -1, 7, 42, 127, 128, -128, 255, 256, 32767, -32768, 65535, 1 << 31, -(1 << 31), math.MaxInt64, math.MinInt64, 1e9}
var fillFloats = []float64{0, 1, -1, 0.5, 1e21, 1e-7, 3.14159, -2.5e10, 123456789, 1e20, 5e-324, math.MaxFloat32}
var fillNumbers = []string{"0", "1", "-1", "1.5", "1e3", "-0", "123456789012345678901234567890", "2.5E-3"}

var numberType = reflect.TypeOf(stdjson.Number(""))

// Fill returns a new addressable value of type t.
func (f *Filler) Fill(t reflect.Type) reflect.Value {
	v := reflect.New(t).Elem()
	f.fill(v, 0)
	return v
}

func (f *Filler) natural(depth int) interface{} {
	f.Budget--
	switch k := f.Intn(8); {
	case k == 0 || f.Budget <= 0:
		return nil
	case k == 1:
		return fillFloats[f.Intn(len(fillFloats)-2)]
	case k == 2:
		return fillStrings[f.Intn(len(fillStrings))]
	case k == 3:
		return f.Intn(2) == 0
	case k == 4 && depth < 4:
		n := f.Intn(3)
		a := make([]interface{}, n)
		for i := range a {
			a[i] = f.natural(depth + 1)
		}
		return a
	case k == 5 && depth < 4:
		m := map[string]interface{}{}
		for i, n := 0, f.Intn(3); i < n; i++ {
			m[fillKeys[f.Intn(len(fillKeys))]] = f.natural(depth + 1)
		}
		return m
	}
	return float64(f.Intn(100))
}

func (f *Filler) fill(v reflect.Value, depth int) {
	f.Budget--
	if f.Budget <= 0 {
		return // rest stays zero
	}
	t := v.Type()
	if t == numberType {
		v.SetString(fillNumbers[f.Intn(len(fillNumbers))])
		return
	}
	switch t.Kind() {
	case reflect.Bool:
		v.SetBool(f.Intn(2) == 0)
	case reflect.Int, reflect.Int8, reflect.Int16, reflect.Int32, reflect.Int64:
		x := fillInts[f.Intn(len(fillInts))]
		v.SetInt(x) // truncates to the kind's width
	case reflect.Uint, reflect.Uint8, reflect.Uint16, reflect.Uint32, reflect.Uint64, reflect.Uintptr:
		v.SetUint(uint64(fillInts[f.Intn(len(fillInts))]))
	case reflect.Float32:
		v.SetFloat(float64(float32(fillFloats[f.Intn(len(fillFloats))])))
	case reflect.Float64:
		v.SetFloat(fillFloats[f.Intn(len(fillFloats))])
	case reflect.String:
		v.SetString(fillStrings[f.Intn(len(fillStrings))])
	case reflect.Interface:
		if t.NumMethod() == 0 {
			if x := f.natural(depth); x != nil {
				v.Set(reflect.ValueOf(x))
			}
		}
	case reflect.Ptr:
		if f.Intn(3) != 0 && depth < 40 {
			p := reflect.New(t.Elem())
			f.fill(p.Elem(), depth+1)
			v.Set(p)
		}
	case reflect.Slice:
		n := f.Intn(4)
		if n == 3 && t.Elem().Kind() != reflect.Uint8 {
			return // nil slice
		}
		s := reflect.MakeSlice(t, n, n+f.Intn(2))
		for i := 0; i < n; i++ {
			f.fill(s.Index(i), depth+1)
		}
		v.Set(s)
	case reflect.Array:
		for i := 0; i < v.Len(); i++ {
			f.fill(v.Index(i), depth+1)
		}
	case reflect.Map:
		n := f.Intn(4)
		if n == 3 {
			return
		}
		m := reflect.MakeMap(t)
		for i := 0; i < n; i++ {
			k := reflect.New(t.Key()).Elem()
			switch t.Key().Kind() {
			case reflect.String:
				k.SetString(fillKeys[f.Intn(len(fillKeys))])
			default:
				f.fill(k, depth+1)
			}
			e := reflect.New(t.Elem()).Elem()
			f.fill(e, depth+1)
			m.SetMapIndex(k, e)
		}
		v.Set(m)
	case reflect.Struct:
		for i := 0; i < v.NumField(); i++ {
			if t.Field(i).PkgPath != "" {
				continue
			}
			f.fill(v.Field(i), depth+1)
		}
	}
}
