// Package corpus defines the registry entry type of the generated-source type corpus (realisation B of
// the type grammar): named, possibly recursive struct types with methods, compiled into the test binary.
package corpus

import "reflect"

// Link is a way a value of the type can refer to another value of the same type.
type Link struct {
	Field string // Go field name
	Kind  string // ptr | slice | map | iface | sliceptr
}

type Entry struct {
	Name    string
	Type    reflect.Type
	Links   []Link // self links (recursion)
	Methods string // "" | mj-val | mj-ptr | mt-val | hostile
	// PtrRecvByValue: values contain, by value, a type with pointer-receiver marshal methods
	PtrRecvByValue bool
	Decl           string // the rendered declaration (for replay files / messages)
	Composite      bool   // an unnamed composite over corpus types ([]T, map[string]*T, ...)
	// Local encodes a value of the type that lives in the caller's frame (stack-allocated when escape
	// analysis allows); nil if not generated for this type. variant: marshal | indent
	Local func(variant string) ([]byte, []byte, error)
}
