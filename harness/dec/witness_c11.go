package dec

import (
	"fmt"
	"strings"

	gojson "github.com/goccy/go-json"

	"verif/harness/known"
)

func init() {
	known.Witnesses["FX-DEC-decoder-options-sticky"] = func() (bool, string) {
		type S struct{ A int }
		d := gojson.NewDecoder(strings.NewReader(`{"A":1,"A":2} {"A":1,"A":2}`))
		var a, b S
		e1 := d.DecodeWithOption(&a, gojson.DecodeFieldPriorityFirstWin())
		e2 := d.Decode(&b)
		return e1 != nil || e2 != nil || a.A != 1 || b.A != 2, fmt.Sprintf("first-win call: A=%d err=%v; following plain Decode: A=%d err=%v (want 1 and 2)", a.A, e1, b.A, e2)
	}
}

func init() {
	known.Witnesses["FX-PATH-negative-index"] = func() (bool, string) {
		p, err := gojson.CreatePath("$[-1]")
		if err != nil {
			return false, "CreatePath rejects the path: " + err.Error()
		}
		var dst interface{}
		var gerr error
		panicked := false
		func() {
			defer func() {
				if r := recover(); r != nil {
					panicked = true
					gerr = fmt.Errorf("panic: %v", r)
				}
			}()
			gerr = p.Get([]interface{}{1, 2, 3}, &dst)
		}()
		return panicked || gerr == nil, fmt.Sprintf("Get($[-1], [1,2,3]) -> %v, err=%v", dst, gerr)
	}
}
