package dec

import (
	"fmt"
	"strings"

	gojson "github.com/goccy/go-json"

	"verif/harness/known"
)

func init() {
	known.Witnesses["FX-DEC-decoder-options-sticky"] = func() (bool, string) {
		type S struct{ A int }
		d := gojson.NewDecoder(strings.NewReader(`{"A":1,"A":2} {"A":1,"A":2}`))
		var a, b S
		e1 := d.DecodeWithOption(&a, gojson.DecodeFieldPriorityFirstWin())
		e2 := d.Decode(&b)
		return e1 != nil || e2 != nil || a.A != 1 || b.A != 2, fmt.Sprintf("first-win call: A=%d err=%v; following plain Decode: A=%d err=%v (want 1 and 2)", a.A, e1, b.A, e2)
	}
}
