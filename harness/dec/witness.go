// Package dec holds what the decoder-side checks share (witnesses of decoder findings, guarded calls).
package dec

import (
	stdjson "encoding/json"
	"fmt"
	"io"
	"reflect"

	gojson "github.com/goccy/go-json"

	"verif/harness/gen"
	"verif/harness/jsongen"
	"verif/harness/known"
	"verif/harness/rt"
)

// Differs decodes doc into fresh values of the type of proto with both libraries and reports whether
// they disagree (error-ness or DeepEqual).
func Differs(doc string, proto interface{}) (bool, string) {
	t := reflect.TypeOf(proto)
	a, b := reflect.New(t), reflect.New(t)
	werr := stdjson.Unmarshal([]byte(doc), a.Interface())
	var gerr error
	pv := rt.Guard(func() { gerr = gojson.Unmarshal([]byte(doc), b.Interface()) })
	d := pv != nil || (werr == nil) != (gerr == nil) || (werr == nil && !reflect.DeepEqual(a.Elem().Interface(), b.Elem().Interface()))
	return d, fmt.Sprintf("encoding/json: %+v err=%v | go-json: %+v err=%v panic=%v", a.Elem().Interface(), werr, b.Elem().Interface(), gerr, pv)
}

type oneByteReader struct {
	b []byte
	i int
}

func (r *oneByteReader) Read(p []byte) (int, error) {
	if r.i >= len(r.b) {
		return 0, io.EOF
	}
	p[0] = r.b[r.i]
	r.i++
	return 1, nil
}

func init() {
	known.DecWitnesses["FX-STREAM-zero-length-read"] = func() (bool, string) {
		doc := []byte(`[[10,"o` + "\\" + `u003euca"]]`)
		var v []gen.RoundMJ
		err := gojson.NewDecoder(jsongen.NewChunkReader(doc, []int{8, 0, 0, 3, 0, 100})).Decode(&v)
		return err != nil || len(v) != 1 || v[0].S != "o>uca", fmt.Sprintf("err=%v v=%+v", err, v)
	}
	known.DecWitnesses[known.StreamEscapedKeySplit] = func() (bool, string) {
		doc := []byte(`{"a` + "\\" + `u003cb":173,"B":2}`)
		type T struct {
			Aa *int `json:"a<b"`
			B  int
		}
		var v T
		err := gojson.NewDecoder(jsongen.NewChunkReader(doc, []int{4, len(doc) - 4})).Decode(&v)
		return err != nil || v.Aa == nil || *v.Aa != 173 || v.B != 2, fmt.Sprintf("err=%v v=%+v", err, v)
	}
	known.DecWitnesses["FX-STREAM-multibyte-rune-split"] = func() (bool, string) {
		doc := []byte("\"a\U00010000b\u20ac\u00e9\"")
		var v, w interface{}
		err := gojson.NewDecoder(&oneByteReader{b: doc}).Decode(&v)
		err2 := gojson.Unmarshal(doc, &w)
		return err != nil || err2 != nil || !reflect.DeepEqual(v, w), fmt.Sprintf("stream=%q err=%v buffer=%q err=%v", v, err, w, err2)
	}
	known.DecWitnesses["FX-DEC-number-null-and-range"] = func() (bool, string) {
		type S struct{ N, M stdjson.Number }
		d1, m1 := Differs(`{"N":null,"M":1e999}`, S{})
		d2, m2 := Differs(`[null,1e400]`, []stdjson.Number{})
		return d1 || d2, m1 + " ; " + m2
	}
	known.DecWitnesses[known.DecStringTag] = func() (bool, string) {
		return Differs(`{"A":false,"B":""}`, struct {
			A bool
			B *gen.NBytes `json:",string"`
		}{})
	}
	known.DecWitnesses[known.DecNameConflict] = func() (bool, string) {
		return Differs(`{"A":"true"}`, struct {
			B bool `json:"A,string"`
			A bool
		}{})
	}
}
