// Package dec holds what the decoder-side checks share (witnesses of decoder findings, guarded calls).
package dec

import (
	"bytes"
	"context"
	stdjson "encoding/json"
	"fmt"
	"io"
	"reflect"
	"strings"

	gojson "github.com/goccy/go-json"

	"verif/harness/gen"
	"verif/harness/jsongen"
	"verif/harness/known"
	"verif/harness/rt"
)

// Differs decodes doc into fresh values of the type of proto with both libraries and reports whether
// they disagree (error-ness or DeepEqual).
func Differs(doc string, proto interface{}) (bool, string) {
	t := reflect.TypeOf(proto)
	a, b := reflect.New(t), reflect.New(t)
	werr := stdjson.Unmarshal([]byte(doc), a.Interface())
	var gerr error
	pv := rt.Guard(func() { gerr = gojson.Unmarshal([]byte(doc), b.Interface()) })
	d := pv != nil || (werr == nil) != (gerr == nil) || (werr == nil && !reflect.DeepEqual(a.Elem().Interface(), b.Elem().Interface()))
	return d, fmt.Sprintf("encoding/json: %+v err=%v | go-json: %+v err=%v panic=%v", a.Elem().Interface(), werr, b.Elem().Interface(), gerr, pv)
}

type embCase struct {
	Ab bool
	a  bool //nolint
}

type oneByteReader struct {
	b []byte
	i int
}

func (r *oneByteReader) Read(p []byte) (int, error) {
	if r.i >= len(r.b) {
		return 0, io.EOF
	}
	p[0] = r.b[r.i]
	r.i++
	return 1, nil
}

func compactOK(b string) bool {
	var d bytes.Buffer
	return gojson.Compact(&d, []byte(b)) == nil
}

func init() {
	known.Witnesses["FX-UTIL-number-grammar"] = func() (bool, string) {
		return compactOK("[01]") || compactOK("[1.]") || !compactOK("1e380"), "Compact number grammar"
	}
	known.Witnesses["FX-UTIL-compact-duplicates-dst"] = func() (bool, string) {
		var d bytes.Buffer
		d.WriteString("abc")
		err := gojson.Compact(&d, []byte(` {"a" : 1} `))
		return err != nil || d.String() != `abc{"a":1}`, fmt.Sprintf("out=%q err=%v", d.String(), err)
	}
	known.Witnesses["FX-UTIL-nul-ends-text"] = func() (bool, string) { return compactOK("[1]\x00x"), "Compact([1]<NUL>x)" }
	known.Witnesses["FX-UTIL-indent-trailing-space"] = func() (bool, string) {
		var d bytes.Buffer
		err := gojson.Indent(&d, []byte(" [1,2] \n "), "", " ")
		return err != nil || !strings.HasSuffix(d.String(), "] \n "), fmt.Sprintf("out=%q err=%v", d.String(), err)
	}
	known.Witnesses["FX-UTIL-depth-limit"] = func() (bool, string) {
		deep := func(n int) string { return strings.Repeat("[", n) + strings.Repeat("]", n) }
		return compactOK(deep(10001)) || !compactOK(deep(10000)), "Compact depth limit"
	}
	known.Witnesses["KF-C05-valid-float-range"] = func() (bool, string) { return !gojson.Valid([]byte("1e999")), "Valid(1e999)" }
	known.Witnesses["KF-C05-stream-separator-skipped"] = func() (bool, string) { return gojson.Valid([]byte(",0")), "Valid(,0)" }
	known.Witnesses["KF-C05-stream-nul-ends-input"] = func() (bool, string) { return gojson.Valid([]byte("1\x00x")), "Valid(1<NUL>x)" }
}

func init() {
	known.Witnesses["FX-PATH-cursor-not-restored"] = func() (bool, string) {
		doc := []byte(`{"a":{"b":[1,{"a":2,"b":null}],"c":"x"},"b":[[3],[]]}`)
		p, err := gojson.CreatePath("$.b.a")
		if err != nil {
			return true, err.Error()
		}
		_, e1 := p.Extract(doc)
		r2, e2 := p.Extract(doc)
		fresh, _ := gojson.CreatePath("$.b.a")
		r3, e3 := fresh.Extract(doc)
		return (e2 == nil) != (e3 == nil) || len(r2) != len(r3), fmt.Sprintf("first err=%v; reused: %d parts err=%v; fresh: %d parts err=%v", e1, len(r2), e2, len(r3), e3)
	}
	known.Witnesses["FX-DEC-key-invalid-escape"] = func() (bool, string) {
		var v struct{}
		var err error
		pv := rt.Guard(func() { err = gojson.Unmarshal([]byte(`{"`+"\\"+`a":null}`), &v) })
		return pv != nil || err == nil, fmt.Sprintf("panic=%v err=%v", pv, err)
	}
	known.Witnesses["FX-PATH-assign-panics"] = func() (bool, string) {
		p, _ := gojson.CreatePath("$")
		var n stdjson.Number
		var err error
		pv := rt.Guard(func() { err = p.Unmarshal([]byte("false"), &n) })
		return pv != nil, fmt.Sprintf("panic=%v err=%v", pv, err)
	}
	known.Witnesses["FX-PATH-get-nil-source"] = func() (bool, string) {
		p, err := gojson.CreatePath("$..a.b")
		if err != nil {
			return false, "path rejected: " + err.Error()
		}
		var out interface{}
		pv := rt.Guard(func() { err = p.Get(map[string]interface{}{"a": nil, "c": map[string]interface{}{"a": nil}}, &out) })
		return pv != nil, fmt.Sprintf("panic=%v err=%v", pv, err)
	}
	known.Witnesses["FX-PATH-null-cast-panic"] = func() (bool, string) {
		p, err := gojson.CreatePath("$.a")
		if err != nil {
			return true, err.Error()
		}
		var v struct{ A int }
		pv := rt.Guard(func() { err = p.Unmarshal([]byte("null"), &v) })
		return pv != nil, fmt.Sprintf("panic=%v err=%v", pv, err)
	}
	known.Witnesses["FX-PATH-get-struct-panic"] = func() (bool, string) {
		p, err := gojson.CreatePath("$.A")
		if err != nil {
			return true, err.Error()
		}
		var v interface{}
		pv := rt.Guard(func() { err = p.Get(struct{ A int }{1}, &v) })
		return pv != nil, fmt.Sprintf("panic=%v err=%v v=%v", pv, err, v)
	}
	known.Witnesses["FX-STREAM-unmatched-key-escape-refill"] = func() (bool, string) {
		doc := []byte(`{"":null,"aaaaaaaaaaaa` + "\\" + `"":null}`)
		var v struct{}
		err := gojson.NewDecoder(jsongen.NewChunkReader(doc, []int{23, 8})).Decode(&v)
		return err != nil, fmt.Sprintf("err=%v", err)
	}
	known.Witnesses["FX-STREAM-skip-number-refill"] = func() (bool, string) {
		var v struct{ A bool }
		err := gojson.NewDecoder(jsongen.NewChunkReader([]byte(`{"ZZ":  0}`), []int{9, 1})).Decode(&v)
		return err != nil, fmt.Sprintf("err=%v", err)
	}
	known.DecWitnesses["FX-DEC-int-minus-leading-zero"] = func() (bool, string) { return Differs(`[-01]`, []int{}) }
	known.DecWitnesses[known.DecSliceReuse] = func() (bool, string) {
		type T struct{ C []float32 }
		mk := func() *T { return &T{C: []float32{1.5, 2.5}} }
		a, b := mk(), mk()
		doc := []byte(`{"C":[0],"C":[0,null]}`)
		e1 := stdjson.Unmarshal(doc, a)
		e2 := gojson.Unmarshal(doc, b)
		return e1 != nil || e2 != nil || !reflect.DeepEqual(a, b), fmt.Sprintf("std=%v go=%v", *a, *b)
	}
	known.DecWitnesses["FX-DEC-key-lone-surrogate"] = func() (bool, string) {
		doc := `{"a":null,"` + "\\" + `ud800":null,"A":2}`
		type T struct{ A int }
		d1, m1 := Differs(doc, T{})
		var v T
		err := gojson.NewDecoder(strings.NewReader(doc)).Decode(&v)
		return d1 || err != nil || v.A != 2, fmt.Sprintf("%s ; stream err=%v v=%+v", m1, err, v)
	}
	known.DecWitnesses["FX-DEC-key-simple-escape-skips-char"] = func() (bool, string) {
		doc := `{"` + "\\" + `"":null,"A":1}`
		type T struct{ A int }
		d1, m1 := Differs(doc, T{})
		var v T
		err := gojson.NewDecoder(strings.NewReader(doc)).Decode(&v)
		return d1 || err != nil || v.A != 1, fmt.Sprintf("%s ; stream err=%v v=%+v", m1, err, v)
	}
	known.DecWitnesses[known.DecCaseFoldKey] = func() (bool, string) {
		return Differs(`{"AB":true}`, struct {
			E0 struct {
				Ab bool
				A  bool `json:"-"`
			} `json:"e"`
			embCase
		}{})
	}
	known.DecWitnesses["FX-DEC-bool-into-textunmarshaler"] = func() (bool, string) { return Differs(`false`, gen.RecUT{}) }
	known.DecWitnesses["FX-DEC-wrapped-string-trailing"] = func() (bool, string) {
		d1, m1 := Differs(`{"1.0":null}`, map[int]bool{})
		d2, m2 := Differs(`{"I":"1x"}`, struct {
			I int `json:",string"`
		}{})
		return d1 || d2, m1 + " ; " + m2
	}
	known.DecWitnesses["FX-DEC-escaped-key-prefix-match"] = func() (bool, string) {
		return Differs(`{"`+"\\"+`u0061":true}`, gen.EmbC{})
	}
	known.DecWitnesses["FX-DEC-array-tail-zero-fill"] = func() (bool, string) {
		type S struct {
			A [4]uint8
			B uint64
			C [2]string
		}
		mk := func() *S { return &S{A: [4]uint8{1, 2, 3, 4}, B: 0xffffffffffffffff, C: [2]string{"x", "y"}} }
		a, b := mk(), mk()
		doc := []byte(`{"A":[9],"C":["z"]}`)
		e1 := stdjson.Unmarshal(doc, a)
		e2 := gojson.Unmarshal(doc, b)
		return e1 != nil || e2 != nil || !reflect.DeepEqual(a, b), fmt.Sprintf("std=%+v go=%+v", a, b)
	}
	known.DecWitnesses["FX-DEC-float32-overflow"] = func() (bool, string) { return Differs(`[3.5e38,1e39,-1e39]`, []float32{}) }
	known.DecWitnesses["FX-DEC-null-into-textunmarshaler"] = func() (bool, string) {
		k := gen.KeyMT{K: 7}
		err := gojson.Unmarshal([]byte("null"), &k)
		return err != nil || k.K != 7, fmt.Sprintf("err=%v k=%+v", err, k)
	}
	known.DecWitnesses["FX-DEC-null-into-bytes"] = func() (bool, string) {
		b := []byte("old")
		err := gojson.Unmarshal([]byte("null"), &b)
		type S struct{ B []byte }
		s := S{B: []byte("old")}
		err2 := gojson.NewDecoder(strings.NewReader(`{"B":null}`)).Decode(&s)
		return err != nil || err2 != nil || b != nil || s.B != nil, fmt.Sprintf("err=%v b=%v err2=%v s.B=%v", err, b, err2, s.B)
	}
	known.DecWitnesses["FX-DEC-context-plain-unmarshaler-panic"] = func() (bool, string) {
		var r stdjson.RawMessage
		var err error
		pv := rt.Guard(func() { err = gojson.UnmarshalContext(context.Background(), []byte(`{"a":1}`), &r) })
		return pv != nil || err != nil || string(r) != `{"a":1}`, fmt.Sprintf("panic=%v err=%v r=%s", pv, err, r)
	}
	known.DecWitnesses["FX-DEC-int-overflow-bare-minus"] = func() (bool, string) {
		d1, m1 := Differs(`9223372036854775808`, int64(0))
		d2, m2 := Differs(`18446744073709551616`, uint64(0))
		d3, m3 := Differs(`[-]`, []int{})
		return d1 || d2 || d3, m1 + " ; " + m2 + " ; " + m3
	}
	known.DecWitnesses["FX-STREAM-int-fraction"] = func() (bool, string) {
		var v int
		err := gojson.NewDecoder(jsongen.NewChunkReader([]byte("1.5"), []int{1, 2})).Decode(&v)
		return err == nil, fmt.Sprintf("err=%v v=%d", err, v)
	}
	known.DecWitnesses["FX-STREAM-zero-length-read"] = func() (bool, string) {
		doc := []byte(`[[10,"o` + "\\" + `u003euca"]]`)
		var v []gen.RoundMJ
		err := gojson.NewDecoder(jsongen.NewChunkReader(doc, []int{8, 0, 0, 3, 0, 100})).Decode(&v)
		return err != nil || len(v) != 1 || v[0].S != "o>uca", fmt.Sprintf("err=%v v=%+v", err, v)
	}
	known.DecWitnesses[known.StreamEscapedKeySplit] = func() (bool, string) {
		doc := []byte(`{"a` + "\\" + `u003cb":173,"B":2}`)
		type T struct {
			Aa *int `json:"a<b"`
			B  int
		}
		var v T
		err := gojson.NewDecoder(jsongen.NewChunkReader(doc, []int{4, len(doc) - 4})).Decode(&v)
		return err != nil || v.Aa == nil || *v.Aa != 173 || v.B != 2, fmt.Sprintf("err=%v v=%+v", err, v)
	}
	known.DecWitnesses["FX-STREAM-multibyte-rune-split"] = func() (bool, string) {
		doc := []byte("\"a\U00010000b\u20ac\u00e9\"")
		var v, w interface{}
		err := gojson.NewDecoder(&oneByteReader{b: doc}).Decode(&v)
		err2 := gojson.Unmarshal(doc, &w)
		return err != nil || err2 != nil || !reflect.DeepEqual(v, w), fmt.Sprintf("stream=%q err=%v buffer=%q err=%v", v, err, w, err2)
	}
	known.DecWitnesses["FX-DEC-number-null-and-range"] = func() (bool, string) {
		type S struct{ N, M stdjson.Number }
		d1, m1 := Differs(`{"N":null,"M":1e999}`, S{})
		d2, m2 := Differs(`[null,1e400]`, []stdjson.Number{})
		return d1 || d2, m1 + " ; " + m2
	}
	known.DecWitnesses[known.DecStringTagUM] = func() (bool, string) {
		return Differs(`{"A":""}`, struct {
			A gen.IntUT `json:",string"`
		}{})
	}
	known.DecWitnesses[known.DecStringTag] = func() (bool, string) {
		return Differs(`{"A":false,"B":""}`, struct {
			A bool
			B *gen.NBytes `json:",string"`
		}{})
	}
	known.DecWitnesses[known.DecNameConflict] = func() (bool, string) {
		return Differs(`{"A":"true"}`, struct {
			B bool `json:"A,string"`
			A bool
		}{})
	}
}
