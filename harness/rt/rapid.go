package rt

import (
	"flag"
	"strconv"
	"testing"

	"pgregory.net/rapid"
)

// Rapid runs prop as a rapid property in a sub-test with a case count and a seed derived from
// VERIF_SEED, the shard index and the sub-check name (so a run is a pure function of those).
func Rapid(t *testing.T, sub string, checks int, prop func(*rapid.T)) {
	t.Run(sub, func(t *testing.T) {
		flag.Set("rapid.checks", strconv.Itoa(checks))
		flag.Set("rapid.seed", strconv.FormatUint(SubSeed(sub), 10))
		flag.Set("rapid.nofailfile", "true")
		flag.Set("rapid.shrinktime", "20s")
		Count("rapid_requested/"+sub, int64(checks))
		rapid.Check(t, prop)
	})
}
