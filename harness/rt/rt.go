// Package rt is the child-side runtime shared by all checks: environment, journal (crash
// attribution), statistics for the evidence file, failing-case files and known-finding state.
package rt

import (
	"encoding/binary"
	"encoding/json"
	"fmt"
	"hash/fnv"
	"os"
	"path/filepath"
	"runtime/debug"
	"sort"
	"strconv"
	"strings"
	"sync"
	"syscall"
)

// Env describes how the driver started this process.
type Env struct {
	Out     string // directory for this shard's outputs
	Tier    string // quick | thorough
	Seed    uint64 // VERIF_SEED (never 0)
	Shard   int
	NShards int
	Replay  string // path of a replay file (replay mode)
	Witness string // id of the finding whose witness is to be run (witness mode)
	Scale   float64
}

var (
	E      Env
	mu     sync.Mutex
	active = map[string]bool{}

	counters  = map[string]int64{}
	labels    = map[string]int64{}
	ntHashes  = map[uint64]struct{}{}
	ntDirect  int64
	samples   = map[string][]json.RawMessage{}
	knownHits = map[string]int64{}
	excluded  = map[string]int64{}
	exhaust   = map[string]bool{}
	notes     []string

	journal []byte
	jseq    uint32
)

const journalSize = 1 << 20

func init() {
	E.Out = os.Getenv("VERIF_OUT")
	E.Tier = os.Getenv("VERIF_TIER")
	if E.Tier == "" {
		E.Tier = "quick"
	}
	E.Seed, _ = strconv.ParseUint(os.Getenv("VERIF_SEED"), 10, 64)
	if E.Seed == 0 {
		E.Seed = 1
	}
	E.Shard, _ = strconv.Atoi(os.Getenv("VERIF_SHARD"))
	E.NShards, _ = strconv.Atoi(os.Getenv("VERIF_NSHARDS"))
	if E.NShards <= 0 {
		E.NShards = 1
	}
	E.Replay = os.Getenv("VERIF_REPLAY")
	E.Witness = os.Getenv("VERIF_WITNESS")
	E.Scale = 1
	if s := os.Getenv("VERIF_SCALE"); s != "" {
		if f, err := strconv.ParseFloat(s, 64); err == nil && f > 0 {
			E.Scale = f
		}
	}
	for _, id := range strings.Split(os.Getenv("VERIF_ACTIVE"), ",") {
		if id != "" {
			active[id] = true
		}
	}
	if E.Out != "" {
		os.MkdirAll(E.Out, 0o755)
		f, err := os.OpenFile(filepath.Join(E.Out, "journal"), os.O_RDWR|os.O_CREATE|os.O_TRUNC, 0o644)
		if err == nil {
			if f.Truncate(journalSize) == nil {
				if m, err := syscall.Mmap(int(f.Fd()), 0, journalSize, syscall.PROT_READ|syscall.PROT_WRITE, syscall.MAP_SHARED); err == nil {
					journal = m
				}
			}
			f.Close()
		}
	}
	debug.SetPanicOnFault(true)
}

// Thorough reports whether the thorough tier was requested.
func Thorough() bool { return E.Tier == "thorough" }

// N picks a case count by tier, scaled by VERIF_SCALE (used only for my own experiments).
func N(quick, thorough int) int {
	n := quick
	if Thorough() {
		n = thorough
	}
	n = int(float64(n) * E.Scale)
	if n < 1 {
		n = 1
	}
	return n
}

// PerShard divides a total case count between the shards.
func PerShard(total int) int {
	n := total / E.NShards
	if n < 1 {
		n = 1
	}
	return n
}

// SubSeed derives a deterministic seed for a sub-check of this shard.
func SubSeed(name string) uint64 {
	h := fnv.New64a()
	fmt.Fprintf(h, "%d/%d/%s", E.Seed, E.Shard, name)
	v := h.Sum64()
	if v == 0 {
		v = 1
	}
	return v >> 1
}

// SetActive replaces the set of active findings (replay mode: the set recorded in the case).
func SetActive(ids []string) {
	active = map[string]bool{}
	for _, id := range ids {
		active[id] = true
	}
}

// ActiveList returns the sorted active ids.
func ActiveList() []string {
	l := []string{}
	for id := range active {
		l = append(l, id)
	}
	sort.Strings(l)
	return l
}

// Active reports whether a known finding is open and was re-witnessed at the start of this run.
func Active(id string) bool { return active[id] }

// Journal records the case about to be handed to go-json so that a dying process can be
// attributed to it.  It is a memory copy into a shared mapping (no syscall).
func Journal(sub string, desc func() string) {
	if journal == nil {
		return
	}
	s := sub + "\n" + desc()
	if len(s) > journalSize-16 {
		s = s[:journalSize-16]
	}
	jseq++
	binary.LittleEndian.PutUint32(journal[0:], 0) // invalidate while writing
	copy(journal[8:], s)
	binary.LittleEndian.PutUint32(journal[4:], jseq)
	binary.LittleEndian.PutUint32(journal[0:], uint32(len(s)))
}

// JournalS is Journal with a ready string.
func JournalS(sub, desc string) { Journal(sub, func() string { return desc }) }

// Tick bumps the journal sequence number only (cheap liveness signal for enumerations that
// journal the enumeration index themselves).
func Tick() {
	if journal != nil {
		jseq++
		binary.LittleEndian.PutUint32(journal[4:], jseq)
	}
}

func Count(name string, n int64) {
	mu.Lock()
	counters[name] += n
	mu.Unlock()
}

func Label(name string) {
	mu.Lock()
	labels[name]++
	mu.Unlock()
}

func LabelN(name string, n int64) {
	mu.Lock()
	labels[name] += n
	mu.Unlock()
}

// Hash64 hashes the parts of a case description.
func Hash64(parts ...string) uint64 {
	h := fnv.New64a()
	for _, p := range parts {
		h.Write([]byte(p))
		h.Write([]byte{0})
	}
	return h.Sum64()
}

// NonTrivial records one non-trivial case by the hash of its canonical description.
func NonTrivial(h uint64) {
	mu.Lock()
	ntHashes[h] = struct{}{}
	mu.Unlock()
}

// NonTrivialDistinct records n non-trivial cases that are distinct by construction (enumerations).
func NonTrivialDistinct(n int64) {
	mu.Lock()
	ntDirect += n
	mu.Unlock()
}

// Exhaustive marks a sub-space as completely enumerated by this run (all shards together).
func Exhaustive(sub string) {
	mu.Lock()
	exhaust[sub] = true
	mu.Unlock()
}

// Note adds a free-text note to the evidence.
func Note(s string) {
	mu.Lock()
	notes = append(notes, s)
	mu.Unlock()
}

// Sample keeps up to 6 sample cases per sub-check (the first ones seen and then sparse later ones).
func Sample(sub string, v any) {
	mu.Lock()
	defer mu.Unlock()
	counters["samples_offered/"+sub]++
	n := counters["samples_offered/"+sub]
	l := samples[sub]
	if len(l) < 3 || (len(l) < 6 && n%97 == 0) {
		b, err := json.Marshal(v)
		if err == nil {
			if len(b) > 2000 {
				b, _ = json.Marshal(string(b[:2000]) + "…(truncated)")
			}
			samples[sub] = append(l, b)
		}
	}
}

// WantSample tells whether Sample would keep the next case (lets callers avoid building it).
func WantSample(sub string) bool {
	mu.Lock()
	defer mu.Unlock()
	n := counters["samples_offered/"+sub] + 1
	l := samples[sub]
	return len(l) < 3 || (len(l) < 6 && n%97 == 0)
}

func KnownHit(id string) {
	mu.Lock()
	knownHits[id]++
	mu.Unlock()
}

func Excluded(id string) {
	mu.Lock()
	excluded[id]++
	mu.Unlock()
}

// Failure is the content of a failing-case file; the driver turns it into a replay file.
type Failure struct {
	Property string          `json:"property"`
	Sub      string          `json:"subcheck"`
	Case     json.RawMessage `json:"case"`
	Msg      string          `json:"msg"`
}

// Fail records a failing case (overwriting the previous one of the same sub-check: rapid re-runs
// the shrunk case last) and returns the message for t.Fatalf.
func Fail(prop, sub string, c any, format string, args ...any) string {
	msg := fmt.Sprintf(format, args...)
	if len(msg) > 4000 {
		msg = msg[:4000] + "…"
	}
	b, err := json.Marshal(c)
	if err != nil {
		b, _ = json.Marshal(fmt.Sprintf("%+v", c))
	}
	f := Failure{Property: prop, Sub: sub, Case: b, Msg: msg}
	out, _ := json.MarshalIndent(f, "", " ")
	if E.Out != "" {
		os.WriteFile(filepath.Join(E.Out, "fail-"+sanitize(sub)+".json"), out, 0o644)
	}
	mu.Lock()
	counters["failures/"+sub]++
	mu.Unlock()
	return sub + ": " + msg
}

func sanitize(s string) string {
	return strings.Map(func(r rune) rune {
		if r >= 'a' && r <= 'z' || r >= 'A' && r <= 'Z' || r >= '0' && r <= '9' || r == '-' || r == '_' {
			return r
		}
		return '_'
	}, s)
}

// LoadReplay reads a replay file (same layout as Failure, possibly with extra keys).
func LoadReplay() (*Failure, error) {
	b, err := os.ReadFile(E.Replay)
	if err != nil {
		return nil, err
	}
	var f Failure
	if err := json.Unmarshal(b, &f); err != nil {
		return nil, err
	}
	return &f, nil
}

// WitnessResult is written by witness mode.
func WitnessResult(stillFails bool, detail string) {
	if E.Out == "" {
		return
	}
	b, _ := json.Marshal(map[string]any{"id": E.Witness, "still_fails": stillFails, "detail": detail})
	os.WriteFile(filepath.Join(E.Out, "witness.json"), b, 0o644)
}

// Guard runs f and converts a recoverable panic into a value.
func Guard(f func()) (pv any) {
	if os.Getenv("VERIF_NOGUARD") != "" { // development aid: let the panic print its stack
		f()
		return nil
	}
	defer func() {
		if r := recover(); r != nil {
			pv = r
			if pv == nil {
				pv = "nil panic"
			}
		}
	}()
	f()
	return nil
}

// Flush writes the shard's statistics; call it from TestMain after m.Run().
func Flush() {
	if E.Out == "" {
		return
	}
	mu.Lock()
	defer mu.Unlock()
	hs := make([]uint64, 0, len(ntHashes))
	for h := range ntHashes {
		hs = append(hs, h)
	}
	sort.Slice(hs, func(i, j int) bool { return hs[i] < hs[j] })
	hb := make([]byte, 8*len(hs))
	for i, h := range hs {
		binary.LittleEndian.PutUint64(hb[8*i:], h)
	}
	os.WriteFile(filepath.Join(E.Out, "nt.bin"), hb, 0o644)
	ex := []string{}
	for k := range exhaust {
		ex = append(ex, k)
	}
	sort.Strings(ex)
	st := map[string]any{
		"counters":   counters,
		"labels":     labels,
		"nt_direct":  ntDirect,
		"nt_hashed":  len(hs),
		"samples":    samples,
		"known_hits": knownHits,
		"excluded":   excluded,
		"exhaustive": ex,
		"notes":      notes,
	}
	b, _ := json.MarshalIndent(st, "", " ")
	os.WriteFile(filepath.Join(E.Out, "stats.json"), b, 0o644)
	mu.Unlock()
	FlushCollected()
	mu.Lock()
}

// ---- development aid: collect mode (VERIF_COLLECT=1) records failures in buckets instead of
// stopping at the first one, so that many defect classes can be triaged from one run.

type cbucket struct {
	N    int
	Case json.RawMessage
	Msg  string
}

var (
	Collecting = os.Getenv("VERIF_COLLECT") != ""
	cbuckets   = map[string]*cbucket{}
)

func Collect(sig string, c any, msg string) {
	b, _ := json.Marshal(c)
	mu.Lock()
	defer mu.Unlock()
	k := cbuckets[sig]
	if k == nil {
		k = &cbucket{}
		cbuckets[sig] = k
	}
	k.N++
	if k.Case == nil || len(b) < len(k.Case) {
		k.Case, k.Msg = b, msg
	}
}

func FlushCollected() {
	if !Collecting || E.Out == "" {
		return
	}
	b, _ := json.MarshalIndent(cbuckets, "", " ")
	os.WriteFile(filepath.Join(E.Out, "collected.json"), b, 0o644)
}
