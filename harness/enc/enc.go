// Package enc holds what the encoder-side checks (C01, C03, C04, C08, C13) share: the encode case,
// the ways a value can be reached, and guarded calls into go-json and encoding/json.
package enc

import (
	"bytes"
	stdjson "encoding/json"
	"fmt"
	"reflect"

	gojson "github.com/goccy/go-json"
	"pgregory.net/rapid"

	"verif/harness/gen"
)

// Case is a replayable encode case.
type Case struct {
	Spec   *gen.TypeSpec `json:"spec"`
	Type   string        `json:"type"` // rendered, informational
	Recipe gen.Recipe    `json:"recipe"`
	Reach  string        `json:"reach"` // direct | ptr | slice-iface | field-iface | map-iface
	Entry  string        `json:"entry"` // marshal | indent | encoder | nohtml
	Escape bool          `json:"escape"`
	Prefix string        `json:"prefix"`
	Indent string        `json:"indent"`
	Active []string      `json:"active"` // known findings active when the case was generated (they shape repairs and values)
	Std    string        `json:"std,omitempty"`
	Got    string        `json:"got,omitempty"`
}

var Reaches = []string{"direct", "direct", "ptr", "slice-iface", "field-iface", "map-iface"}

type holder struct {
	X interface{}
}

// Wrap returns the interface value handed to both libraries.
func Wrap(v reflect.Value, reach string) interface{} {
	switch reach {
	case "ptr":
		return v.Addr().Interface()
	case "slice-iface":
		return []interface{}{v.Interface()}
	case "field-iface":
		return holder{X: v.Interface()}
	case "map-iface":
		return map[string]interface{}{"k": v.Interface()}
	}
	return v.Interface()
}

// Opts describes the encoder settings both libraries get.
type Opts struct {
	Entry          string
	Escape         bool
	Prefix, Indent string
}

func DrawOpts(t *rapid.T) Opts {
	o := Opts{Entry: rapid.SampledFrom([]string{"marshal", "marshal", "indent", "encoder", "nohtml"}).Draw(t, "entry"), Escape: true}
	switch o.Entry {
	case "indent":
		o.Prefix = rapid.SampledFrom([]string{"", "", "\t", " "}).Draw(t, "prefix")
		o.Indent = rapid.SampledFrom([]string{"  ", "\t", "", " "}).Draw(t, "indent")
	case "encoder":
		o.Escape = rapid.Bool().Draw(t, "escape")
		if rapid.Bool().Draw(t, "encindent") {
			o.Prefix = rapid.SampledFrom([]string{"", " "}).Draw(t, "prefix")
			o.Indent = rapid.SampledFrom([]string{"  ", "\t"}).Draw(t, "indent")
		}
	case "nohtml":
		o.Escape = false
	}
	return o
}

// Std encodes with encoding/json under o.
func Std(v interface{}, o Opts) (out []byte, err error) {
	switch o.Entry {
	case "marshal":
		return stdjson.Marshal(v)
	case "indent":
		return stdjson.MarshalIndent(v, o.Prefix, o.Indent)
	}
	var buf bytes.Buffer
	e := stdjson.NewEncoder(&buf)
	e.SetEscapeHTML(o.Escape)
	if o.Prefix != "" || o.Indent != "" {
		e.SetIndent(o.Prefix, o.Indent)
	}
	if err := e.Encode(v); err != nil {
		return nil, err
	}
	b := buf.Bytes()
	if o.Entry == "nohtml" {
		b = bytes.TrimSuffix(b, []byte("\n"))
	}
	return b, nil
}

// Go encodes with go-json under o.  A recoverable panic is returned as pv.
func Go(v interface{}, o Opts) (out []byte, err error, pv any) {
	defer func() {
		if r := recover(); r != nil {
			pv = fmt.Sprint(r)
		}
	}()
	switch o.Entry {
	case "marshal":
		out, err = gojson.Marshal(v)
	case "indent":
		out, err = gojson.MarshalIndent(v, o.Prefix, o.Indent)
	case "nohtml":
		out, err = gojson.MarshalWithOption(v, gojson.DisableHTMLEscape())
	default:
		var buf bytes.Buffer
		e := gojson.NewEncoder(&buf)
		e.SetEscapeHTML(o.Escape)
		if o.Prefix != "" || o.Indent != "" {
			e.SetIndent(o.Prefix, o.Indent)
		}
		err = e.Encode(v)
		out = buf.Bytes()
	}
	return
}

// SafeType realises a spec, returning nil if reflect refuses the shape.
func SafeType(s *gen.TypeSpec) (t reflect.Type) {
	defer func() {
		if recover() != nil {
			t = nil
		}
	}()
	return s.Type()
}
