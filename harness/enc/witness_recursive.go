package enc

import (
	stdjson "encoding/json"
	"fmt"
	"runtime"
	"sync"

	gojson "github.com/goccy/go-json"

	"verif/harness/rt"
)

// Witnesses of the recursive-type findings (found by C08/C14 on the generated-source corpus).

type wEmbIn struct {
	A int
	L []*wEmbIn
}
type wEmbOut struct {
	wEmbIn
	B int
}

type wFrame struct {
	A, B, C, D int
	M          map[string]interface{}
	P          *wFrame
}

type wBig struct {
	Big map[string][]map[string][]int
	P   *wBig
}

type wPM struct{ A int }

func (p *wPM) MarshalJSON() ([]byte, error) { return []byte(`"PM"`), nil }

type wAddr struct {
	L []wAddr
	V wPM
}

type wIface struct {
	I interface{}
	P *wIface
}

type wMapChain struct {
	M map[string]*wMapChain
	A int
	S string
}

// a marshaler that grows the goroutine stack (the stack is moved) and forces a collection
type wGrower struct{ N int }

//go:noinline
func wGrow(n int) int {
	var pad [128]byte
	pad[n%128] = byte(n)
	if n == 0 {
		return int(pad[0])
	}
	return wGrow(n-1) + int(pad[n%128])
}

func (g wGrower) MarshalJSON() ([]byte, error) {
	wGrow(3000)  // the stack of this goroutine is moved
	runtime.GC() // the old stack segment is released
	// other goroutines take over released stack memory and write to it
	var wg sync.WaitGroup
	for i := 0; i < 64; i++ {
		wg.Add(1)
		go func(i int) {
			defer wg.Done()
			wGrow(40 + i*7)
		}(i)
	}
	wg.Wait()
	junk := make([][]byte, 256)
	for i := range junk {
		junk[i] = make([]byte, 8192)
		junk[i][17] = 0xff
	}
	return []byte(`"grown"`), nil
}

type wLocal struct {
	H wGrower
	A int
	Z int64
	S string
}

//go:noinline
func wLocalNoEscape() ([]byte, error) {
	x := wLocal{A: 100, Z: 0x1122334455667788, S: "tail"}
	return gojson.MarshalNoEscape(&x)
}

func sameAs(entry string, gj func() ([]byte, error), std func() ([]byte, error)) (bool, string) {
	want, werr := std()
	var got []byte
	var gerr error
	pv := rt.Guard(func() { got, gerr = gj() })
	bad := pv != nil || (werr == nil) != (gerr == nil) || string(want) != string(got)
	return bad, fmt.Sprintf("%s: encoding/json=%.200q err=%v | go-json=%.200q err=%v panic=%v", entry, want, werr, got, gerr, pv)
}

func init() {
	Witnesses["FX-ENC-embedded-recursive-struct"] = func() (bool, string) {
		v := wEmbOut{wEmbIn: wEmbIn{A: 1, L: []*wEmbIn{{A: 2}}}, B: 3}
		return differs(v)
	}
	Witnesses["FX-ENC-interface-in-recursive-frame"] = func() (bool, string) {
		v := wFrame{M: map[string]interface{}{"a": 1}, P: &wFrame{M: map[string]interface{}{"b": map[string]interface{}{"c": 1}}}}
		return differs(v)
	}
	Witnesses["FX-ENC-recursive-frame-overlap"] = func() (bool, string) {
		var p *wBig
		for i := 0; i < 3; i++ {
			p = &wBig{Big: map[string][]map[string][]int{"a": {{"b": {1, 2}}}}, P: p}
		}
		return sameAs("MarshalIndent", func() ([]byte, error) { return gojson.MarshalIndent(p, "", " ") }, func() ([]byte, error) { return stdjson.MarshalIndent(p, "", " ") })
	}
	Witnesses["FX-ENC-recursive-addressable-program"] = func() (bool, string) {
		return differs(wAddr{L: []wAddr{{V: wPM{1}, L: []wAddr{{}}}}, V: wPM{2}})
	}
	Witnesses["FX-ENC-false-cycle-first-field-interface"] = func() (bool, string) {
		var cur *wIface
		for i := 0; i < 1500; i++ {
			cur = &wIface{I: 1, P: cur}
		}
		return differs(cur)
	}
	Witnesses["FX-ENC-cycle-state-typed-nil-interface"] = func() (bool, string) {
		leaf := &wIface{I: (*int)(nil)}
		var cur interface{} = struct{ L []*wIface }{L: []*wIface{leaf, leaf, leaf}}
		for i := 0; i < 1100; i++ {
			cur = &wIface{I: cur}
		}
		return differs(cur)
	}
	// open: MarshalNoEscape keeps a raw address into the caller's frame across callbacks that move the stack
	Witnesses["KF-C08-noescape-stack-growth"] = func() (bool, string) {
		want := `{"H":"grown","A":100,"Z":1234605616436508552,"S":"tail"}`
		for i := 0; i < 60; i++ {
			var got []byte
			var err error
			done := make(chan struct{})
			go func() { // a fresh goroutine starts with a small stack, so the callback has to move it
				defer close(done)
				if pv := rt.Guard(func() { got, err = wLocalNoEscape() }); pv != nil {
					err = fmt.Errorf("panic: %v", pv)
				}
			}()
			<-done
			if err != nil || string(got) != want {
				return true, fmt.Sprintf("MarshalNoEscape(&x) of a frame-local struct whose first member's marshaler grows the stack: got %.200q err=%v, want %s", got, err, want)
			}
		}
		return false, "60 attempts agreed"
	}
	// open: memory of the indenting interpreters on deeply nested maps grows with depth x output
	Witnesses["KF-C08-indent-nested-map-memory"] = func() (bool, string) {
		cur := &wMapChain{}
		for i := 0; i < 400; i++ {
			cur = &wMapChain{M: map[string]*wMapChain{"k": cur}, A: i, S: "hello"}
		}
		var m0, m1 runtime.MemStats
		runtime.GC()
		runtime.ReadMemStats(&m0)
		out, err := gojson.MarshalIndent(cur, "", " ")
		runtime.ReadMemStats(&m1)
		if err != nil || len(out) == 0 {
			return true, fmt.Sprintf("MarshalIndent failed: %v", err)
		}
		ratio := float64(m1.TotalAlloc-m0.TotalAlloc) / float64(len(out))
		return ratio > 50, fmt.Sprintf("MarshalIndent of a 400-deep map chain: %d bytes of output, %d bytes allocated (%.0fx; encoding/json needs about 6x)", len(out), m1.TotalAlloc-m0.TotalAlloc, ratio)
	}
}

type wInB struct {
	B bool
	A []uint8
}

type wEmbOmit struct {
	*wInB `json:",omitempty"`
	X     int
}

type wSemi struct {
	A int `json:"a;b"`
	B int `json:"c;d,omitempty"`
}

func init() {
	Witnesses["FX-ENC-embedded-omitempty-invalid-json"] = func() (bool, string) {
		return differs(wEmbOmit{wInB: &wInB{B: true}, X: 1})
	}
	Witnesses["FX-ENC-tag-name-semicolon"] = func() (bool, string) {
		d1, m1 := differs(wSemi{A: 1, B: 2})
		var a, b wSemi
		e1 := stdjson.Unmarshal([]byte(`{"a;b":3,"c;d":4}`), &a)
		e2 := gojson.Unmarshal([]byte(`{"a;b":3,"c;d":4}`), &b)
		return d1 || e1 != nil || e2 != nil || a != b, m1 + fmt.Sprintf(" | decode: std %+v go-json %+v", a, b)
	}
}
