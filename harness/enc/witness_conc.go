package enc

import (
	"context"
	stdjson "encoding/json"
	"fmt"
	"reflect"
	"runtime"
	"sync"
	"time"

	gojson "github.com/goccy/go-json"
)

// Witnesses of the concurrency findings (found by C10).  Schedules cannot be forced: each witness
// repeats a racy situation many times; under the race build a data race ends the process
// (GORACE halt_on_error), which the driver reports for a fixed finding.

type wRec struct {
	A int
	P *wRec
	L []wRec
	M map[string]int
}

type wQ struct {
	A int
	B string
	C []int
}

func hammer(g int, f func(i int) string) (bool, string) {
	var wg sync.WaitGroup
	start := make(chan struct{})
	bad := make(chan string, g)
	for i := 0; i < g; i++ {
		wg.Add(1)
		go func(i int) {
			defer wg.Done()
			defer func() {
				if r := recover(); r != nil {
					bad <- fmt.Sprint("panic: ", r)
				}
			}()
			<-start
			if s := f(i); s != "" {
				bad <- s
			}
		}(i)
	}
	close(start)
	done := make(chan struct{})
	go func() { wg.Wait(); close(done) }()
	select {
	case <-done:
	case <-time.After(60 * time.Second):
		return true, "goroutines did not finish within 60 s (deadlock)"
	}
	select {
	case s := <-bad:
		return true, s
	default:
		return false, ""
	}
}

func init() {
	// cold run-time-created types around a recursive type, first used by 64 goroutines at once
	Witnesses["FX-ENC-program-collected-while-running"] = func() (bool, string) {
		prev := runtime.GOMAXPROCS(16)
		defer runtime.GOMAXPROCS(prev)
		v := wRec{A: 1, P: &wRec{A: 2, L: []wRec{{A: 3, M: map[string]int{"k": 1}}, {A: 4}}}, L: []wRec{{P: &wRec{A: 5}}}}
		for i := 0; i < 300; i++ { // a long chain: the calling programs stay suspended for a while
			v = wRec{A: i, P: &wRec{A: -i, P: v.P, L: v.L}, L: []wRec{{A: i}}}
		}
		stop := make(chan struct{})
		defer close(stop)
		go func() { // collections all the time
			for {
				select {
				case <-stop:
					return
				default:
					runtime.GC()
				}
			}
		}()
		for round := 0; round < 60; round++ {
			t := reflect.StructOf([]reflect.StructField{
				{Name: fmt.Sprintf("W%d", round), Type: reflect.TypeOf(v)},
				{Name: "L", Type: reflect.SliceOf(reflect.TypeOf(v))},
				{Name: "N", Type: reflect.TypeOf(0)},
			})
			val := reflect.New(t).Elem()
			val.Field(0).Set(reflect.ValueOf(v))
			val.Field(1).Set(reflect.ValueOf([]wRec{v, v}))
			iv := val.Interface()
			want, _ := stdjson.Marshal(iv)
			if bad, msg := hammer(64, func(i int) string {
				junk := make([][]byte, 32)
				for k := range junk {
					junk[k] = make([]byte, 2048)
				}
				var got []byte
				var err error
				if i%2 == 0 {
					got, err = gojson.Marshal(iv)
				} else {
					got, err = gojson.MarshalIndent(iv, "", "")
					if err == nil {
						var c interface{}
						if stdjson.Unmarshal(got, &c) != nil {
							return fmt.Sprintf("MarshalIndent output is not JSON: %.200q", got)
						}
						got = want
					}
				}
				if err != nil || string(got) != string(want) {
					return fmt.Sprintf("round %d: err=%v got=%.200q want=%.200q", round, err, got, want)
				}
				_ = junk[3][5]
				return ""
			}); bad {
				return true, msg
			}
		}
		return false, "60 rounds of 64 goroutines agreed with encoding/json"
	}
	// one fresh FieldQuery shared by goroutines (race build: the detector ends the process on a race;
	// before the fix the race build could also deadlock here)
	Witnesses["FX-ENC-fieldquery-shared-hash"] = func() (bool, string) {
		for round := 0; round < 100; round++ {
			q, err := gojson.BuildFieldQuery("A", "C")
			if err != nil {
				return true, err.Error()
			}
			ctx := gojson.SetFieldQueryToContext(context.Background(), q)
			t := reflect.StructOf([]reflect.StructField{{Name: fmt.Sprintf("Q%d", round), Type: reflect.TypeOf(0)}, {Name: "V", Type: reflect.TypeOf(wQ{})}})
			cold := reflect.New(t).Interface()
			if bad, msg := hammer(16, func(i int) string {
				if i%4 == 3 {
					_, err := gojson.Marshal(cold) // publishes a program while the others filter
					if err != nil {
						return err.Error()
					}
					return ""
				}
				b, err := gojson.MarshalContext(ctx, wQ{A: 1, B: "x", C: []int{1}})
				if err != nil || string(b) != `{"A":1,"C":[1]}` {
					return fmt.Sprintf("MarshalContext with a shared query: %s err=%v", b, err)
				}
				return ""
			}); bad {
				return true, msg
			}
		}
		return false, "100 rounds agreed"
	}
	Witnesses["FX-ENC-race-build-cache-deadlock"] = Witnesses["FX-ENC-fieldquery-shared-hash"]
}
