package enc

import (
	stdjson "encoding/json"
	"fmt"
	"testing"

	gojson "github.com/goccy/go-json"

	"verif/harness/gen"
	"verif/harness/known"
	"verif/harness/rt"
)

// differs reports whether go-json's Marshal disagrees with encoding/json on v (error-ness or bytes).
func differs(v interface{}) (bool, string) {
	want, werr := stdjson.Marshal(v)
	var got []byte
	var gerr error
	pv := rt.Guard(func() { got, gerr = gojson.Marshal(v) })
	d := pv != nil || (werr == nil) != (gerr == nil) || string(want) != string(got)
	return d, fmt.Sprintf("encoding/json=%s err=%v | go-json=%s err=%v panic=%v", want, werr, got, gerr, pv)
}

type embIn2 struct {
	A bool `json:"a,omitempty"`
}
type embIn1 struct {
	A bool
	embIn2
}
type embOut struct{ embIn1 }

// three fields named "a" at the same depth (two in one embedded struct, one in another): encoding/json
// drops all of them
type embA struct{}
type embB struct{}
type embC struct{}
type embE0 struct {
	embA `json:"a"`
	embB `json:"a"`
}
type embE1 struct {
	embC `json:"a"`
}
type embConflict struct {
	embE0
	embE1
}

type omitM struct {
	F gen.BoolMT `json:"f,omitempty"`
}

// Witnesses of the encoder-side known findings: each returns whether the defect still shows.
var Witnesses = map[string]func() (bool, string){
	known.EncDirectAggregate: func() (bool, string) { // crash-class: may kill the process (finding is marked crash)
		p := &gen.PtrMJ{A: 1}
		return differs(&p) // **T with marshal methods
	},
	known.EncMapKeyStringText: func() (bool, string) { return differs(map[gen.StrMT]int{"a": 1}) },
	known.EncOmitemptyMarsh:   func() (bool, string) { return differs(omitM{}) },
	known.EncMapKindMarsh:     func() (bool, string) { return differs(struct{ M gen.MapMJ }{}) },
	known.EncNilPtrValueText:  func() (bool, string) { return differs((*gen.ValMT)(nil)) },
	known.EncPtrRecvNonAddr:   func() (bool, string) { return differs([2]gen.PtrMJ{{A: 1}, {A: 2}}) },
	known.EncMapOrderEscaped:  func() (bool, string) { return differs(map[string]int{"a\"": 1, "a#": 2}) },
	known.EncOmitemptyArray0: func() (bool, string) {
		return differs(struct {
			A [0]bool `json:",omitempty"`
		}{})
	},
	known.EncOmitemptyPtrPtr: func() (bool, string) {
		var inner *bool
		return differs(struct {
			A **bool `json:",omitempty"`
			B int
		}{A: &inner})
	},
	known.EncEmbeddedConflict: func() (bool, string) { return differs(embConflict{}) },
	known.EncNilPtrFirstMarsh: func() (bool, string) { return differs((*struct{ A gen.PtrMJ })(nil)) },
	known.EncStringTagOnOthers: func() (bool, string) {
		x := 7
		p := &x
		return differs(struct {
			A int
			P **int `json:"p,string"`
		}{A: 1, P: &p})
	},
}

func init() {
	Witnesses["FX-ENC-pointer-shaped-array-and-struct"] = func() (bool, string) {
		one := 1
		m := map[string]int{"a": 1}
		d1, m1 := differs([1]*int{&one})
		d2, m2 := differs(struct{ A [1]map[string]int }{[1]map[string]int{m}})
		d3, m3 := differs([]interface{}{[1]*int{nil}, struct{ a *int }{}})
		return d1 || d2 || d3, m1 + " ; " + m2 + " ; " + m3
	}
	Witnesses["FX-ENC-nested-embedded-last-field"] = func() (bool, string) { return differs(embOut{}) }
	Witnesses["FX-ENC-indent-nil-marshaler-panic"] = func() (bool, string) {
		v := [2]*stdjson.RawMessage{}
		want, werr := stdjson.MarshalIndent(v, "", " ")
		var got []byte
		var gerr error
		pv := rt.Guard(func() { got, gerr = gojson.MarshalIndent(v, "", " ") })
		return pv != nil || (werr == nil) != (gerr == nil) || string(want) != string(got), fmt.Sprintf("std=%q go=%q err=%v panic=%v", want, got, gerr, pv)
	}
}

func RunWitness(t *testing.T) {
	for id, f := range Witnesses {
		known.Witnesses[id] = f
	}
	known.RunWitness()
}
