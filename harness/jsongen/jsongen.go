// Package jsongen generates JSON documents (as an ordered AST with chosen spellings and
// whitespace), mutations of them and chunkings of byte streams.  All random choices are rapid draws.
package jsongen

import (
	"fmt"
	"strconv"
	"strings"

	"pgregory.net/rapid"
)

// Node is an ordered JSON AST node carrying the exact spelling of its tokens.
type Node struct {
	Kind  byte     // 'o' object, 'a' array, 's' string, 'n' number, 't', 'f', '0' (null)
	Lit   string   // number literal, or string literal including quotes
	Keys  []string // object: key literals including quotes
	Elems []*Node  // object member values / array elements
	Pre   string   // whitespace before the value
	Post  string   // whitespace after the value
	In    string   // whitespace inside an empty container / after the colon for members (reused)
}

// Cfg bounds generation.
type Cfg struct {
	MaxDepth   int
	MaxElems   int
	Whitespace bool     // draw inter-token whitespace
	Exotic     bool     // escapes / multi-byte / surrogates in strings, exponent forms in numbers
	BigNumbers bool     // literals beyond float64 / int64 range
	KeyPool    []string // if set, object keys are mostly drawn from this pool (Go strings, spelled freshly)
}

var DefaultCfg = Cfg{MaxDepth: 4, MaxElems: 4, Whitespace: true, Exotic: true}

var wsChoices = []string{"", "", "", "", " ", "\t", "\n", "\r", "  ", " \n\t ", "\r\n"}

func ws(t *rapid.T, c Cfg) string {
	if !c.Whitespace {
		return ""
	}
	return rapid.SampledFrom(wsChoices).Draw(t, "ws")
}

// Gen draws a document.
func Gen(t *rapid.T, c Cfg) *Node {
	return genNode(t, c, 0)
}

func genNode(t *rapid.T, c Cfg, depth int) *Node {
	n := &Node{Pre: ws(t, c), Post: ws(t, c)}
	max := 7
	if depth >= c.MaxDepth {
		max = 4
	}
	switch rapid.IntRange(0, max).Draw(t, "kind") {
	case 0:
		n.Kind, n.Lit = '0', "null"
	case 1:
		if rapid.Bool().Draw(t, "b") {
			n.Kind, n.Lit = 't', "true"
		} else {
			n.Kind, n.Lit = 'f', "false"
		}
	case 2, 3:
		n.Kind, n.Lit = 'n', Number(t, c)
	case 4:
		n.Kind, n.Lit = 's', StringLit(t, c)
	case 5, 6:
		n.Kind = 'a'
		k := rapid.IntRange(0, c.MaxElems).Draw(t, "len")
		for i := 0; i < k; i++ {
			n.Elems = append(n.Elems, genNode(t, c, depth+1))
		}
		n.In = ws(t, c)
	default:
		n.Kind = 'o'
		k := rapid.IntRange(0, c.MaxElems).Draw(t, "len")
		for i := 0; i < k; i++ {
			n.Keys = append(n.Keys, Key(t, c))
			n.Elems = append(n.Elems, genNode(t, c, depth+1))
		}
		n.In = ws(t, c)
	}
	return n
}

// Key draws an object key literal.
func Key(t *rapid.T, c Cfg) string {
	if len(c.KeyPool) > 0 && rapid.IntRange(0, 9).Draw(t, "pool") < 8 {
		k := rapid.SampledFrom(c.KeyPool).Draw(t, "key")
		return Spell(t, k, c)
	}
	if rapid.IntRange(0, 3).Draw(t, "shortkey") > 0 {
		return Spell(t, rapid.SampledFrom([]string{"a", "b", "A", "ab", "k1", "x y", "", "é"}).Draw(t, "k"), c)
	}
	return StringLit(t, c)
}

// Spell renders a Go string (valid UTF-8) as a JSON string literal with drawn spellings per rune.
func Spell(t *rapid.T, s string, c Cfg) string {
	var sb strings.Builder
	sb.WriteByte('"')
	for _, r := range s {
		mode := 0
		if c.Exotic {
			mode = rapid.IntRange(0, 7).Draw(t, "spell")
		}
		writeRune(&sb, r, mode)
	}
	sb.WriteByte('"')
	return sb.String()
}

func writeRune(sb *strings.Builder, r rune, mode int) {
	simple := map[rune]string{'"': `\"`, '\\': `\\`, '\b': `\b`, '\f': `\f`, '\n': `\n`, '\r': `\r`, '\t': `\t`}
	mustEscape := r < 0x20 || r == '"' || r == '\\'
	switch {
	case mode == 6 || (mustEscape && mode >= 4): // \u lower hex
		writeU(sb, r, false)
	case mode == 7: // \u upper hex
		writeU(sb, r, true)
	case mustEscape:
		if s, ok := simple[r]; ok {
			sb.WriteString(s)
		} else {
			writeU(sb, r, false)
		}
	case r == '/' && mode == 5:
		sb.WriteString(`\/`)
	default:
		sb.WriteRune(r)
	}
}

func writeU(sb *strings.Builder, r rune, upper bool) {
	f := `\u%04x`
	if upper {
		f = `\u%04X`
	}
	if r >= 0x10000 {
		r -= 0x10000
		fmt.Fprintf(sb, f, 0xd800+(r>>10))
		fmt.Fprintf(sb, f, 0xdc00+(r&0x3ff))
		return
	}
	fmt.Fprintf(sb, f, r)
}

var plainAtoms = []string{"a", "b", "z", "A", "0", " ", "_", "-", ".", "/", "<", ">", "&", "'", "{", "]", ":", ","}
var multiAtoms = []string{"\u00e9", "\u00df", "\u20ac", "\u4e16", "\u2028", "\u2029", "\ufffd", "\U0001F600", "\U0001D11E", "\u007f", "\u0080", "\u07ff", "\u0800", "\uffff", "\U00010000", "\U0010FFFF"}
var escAtoms = []string{`\"`, `\\`, `\/`, `\b`, `\f`, `\n`, `\r`, `\t`}
var uAtoms = []string{`\u0061`, `\u0041`, `\u0000`, `\u001f`, `\u001F`, `\u0022`, `\u005c`, `\u005C`, `\u00e9`, `\u00E9`, `\u2028`, `\u20ac`, `\uffff`, `\uFFFF`,
	`\ud834\udd1e`, `\uD834\uDD1E`, `\ud83d\ude00`, `\ud800`, `\udc00`, `\uDBFF`, `\udfff`, `\ud800a`, `\udc00\ud800`, `\ud800\ud800`, `\u007f`, `\u0080`, `\u0008`, `\u000c`, `\u003c`}

// StringLit draws a valid, UTF-8-valid JSON string literal (with quotes).
func StringLit(t *rapid.T, c Cfg) string {
	var sb strings.Builder
	sb.WriteByte('"')
	n := rapid.IntRange(0, 12).Draw(t, "atoms")
	if rapid.IntRange(0, 30).Draw(t, "long") == 0 {
		n = rapid.IntRange(13, 80).Draw(t, "atomsLong")
	}
	for i := 0; i < n; i++ {
		cls := 0
		if c.Exotic {
			cls = rapid.IntRange(0, 5).Draw(t, "cls")
		}
		switch cls {
		case 0, 1, 2:
			sb.WriteString(rapid.SampledFrom(plainAtoms).Draw(t, "p"))
		case 3:
			sb.WriteString(rapid.SampledFrom(multiAtoms).Draw(t, "m"))
		case 4:
			sb.WriteString(rapid.SampledFrom(escAtoms).Draw(t, "e"))
		default:
			sb.WriteString(rapid.SampledFrom(uAtoms).Draw(t, "u"))
		}
	}
	sb.WriteByte('"')
	return sb.String()
}

var boundaryInts = []string{
	"0", "-0", "1", "-1", "9", "10", "99", "100", "127", "128", "-128", "-129", "255", "256", "32767", "32768", "-32768", "-32769", "65535", "65536",
	"2147483647", "2147483648", "-2147483648", "-2147483649", "4294967295", "4294967296",
	"9223372036854775807", "9223372036854775808", "-9223372036854775808", "-9223372036854775809",
	"18446744073709551615", "18446744073709551616", "9007199254740992", "9007199254740993", "16777216", "16777217",
	"1000000000000000000000", "123456789012345678901234567890",
}

var boundaryFloats = []string{
	"0.0", "-0.0", "0.1", "1.5", "-1.5", "1e0", "1E0", "1e+2", "1E-2", "1e-7", "1e21", "1e20", "0.000001", "0.0000001", "3.4028234663852886e38", "3.4028235e38", "3.5e38",
	"1e38", "1e39", "-1e39", "1.7976931348623157e308", "4.9e-324", "5e-324", "2.2250738585072014e-308", "1e-400", "0e999", "0.30000000000000004", "123456789.123456789",
	"1.0", "100.0", "1.00", "12e1", "2.5e-1", "1.401298464324817e-45", "1e-46",
}

// Number draws a valid JSON number literal.
func Number(t *rapid.T, c Cfg) string {
	switch rapid.IntRange(0, 5).Draw(t, "numkind") {
	case 0:
		return rapid.SampledFrom(boundaryInts).Draw(t, "bi")
	case 1:
		if c.Exotic {
			s := rapid.SampledFrom(boundaryFloats).Draw(t, "bf")
			if !c.BigNumbers && (strings.Contains(s, "e999") || strings.Contains(s, "e-400")) {
				return "1.25"
			}
			return s
		}
		return strconv.Itoa(rapid.IntRange(-1000, 1000).Draw(t, "small"))
	case 2:
		return strconv.FormatInt(rapid.Int64().Draw(t, "i64"), 10)
	case 3:
		return strconv.Itoa(rapid.IntRange(-300, 300).Draw(t, "small"))
	}
	// grammar
	var sb strings.Builder
	if rapid.Bool().Draw(t, "neg") {
		sb.WriteByte('-')
	}
	if rapid.IntRange(0, 3).Draw(t, "zero") == 0 {
		sb.WriteByte('0')
	} else {
		sb.WriteByte(byte('1' + rapid.IntRange(0, 8).Draw(t, "d0")))
		nd := rapid.IntRange(0, 6).Draw(t, "nd")
		if c.BigNumbers && rapid.IntRange(0, 9).Draw(t, "big") == 0 {
			nd = rapid.IntRange(17, 24).Draw(t, "ndbig")
		}
		for i := 0; i < nd; i++ {
			sb.WriteByte(byte('0' + rapid.IntRange(0, 9).Draw(t, "d")))
		}
	}
	if c.Exotic && rapid.Bool().Draw(t, "frac") {
		sb.WriteByte('.')
		nd := rapid.IntRange(1, 6).Draw(t, "nf")
		for i := 0; i < nd; i++ {
			sb.WriteByte(byte('0' + rapid.IntRange(0, 9).Draw(t, "fd")))
		}
	}
	if c.Exotic && rapid.IntRange(0, 2).Draw(t, "exp") == 0 {
		sb.WriteString(rapid.SampledFrom([]string{"e", "E", "e+", "e-", "E+", "E-"}).Draw(t, "e"))
		max := 30
		if c.BigNumbers {
			max = 400
		}
		sb.WriteString(strconv.Itoa(rapid.IntRange(0, max).Draw(t, "ev")))
	}
	return sb.String()
}

// Render writes the document text.
func (n *Node) Render() []byte {
	var sb strings.Builder
	n.render(&sb)
	return []byte(sb.String())
}

func (n *Node) render(sb *strings.Builder) {
	sb.WriteString(n.Pre)
	switch n.Kind {
	case 'a':
		sb.WriteByte('[')
		if len(n.Elems) == 0 {
			sb.WriteString(n.In)
		}
		for i, e := range n.Elems {
			if i > 0 {
				sb.WriteByte(',')
			}
			e.render(sb)
		}
		sb.WriteByte(']')
	case 'o':
		sb.WriteByte('{')
		if len(n.Elems) == 0 {
			sb.WriteString(n.In)
		}
		for i, e := range n.Elems {
			if i > 0 {
				sb.WriteByte(',')
			}
			sb.WriteString(e.Post) // reuse a drawn whitespace before the key
			sb.WriteString(n.Keys[i])
			sb.WriteString(n.In)
			sb.WriteByte(':')
			e.render(sb)
		}
		sb.WriteByte('}')
	default:
		sb.WriteString(n.Lit)
	}
	sb.WriteString(n.Post)
}

// Count returns the number of value nodes.
func (n *Node) Count() int {
	c := 1
	for _, e := range n.Elems {
		c += e.Count()
	}
	return c
}

// MutAlphabet is the byte alphabet used for insertions and substitutions.
var MutAlphabet = []byte("[]{},:\"\\u01-+.eEtralsnf \x00\x01\x7f\xc3\xa9/b9x\n")

// Chunks draws a partition of [0,n) into piece lengths (possibly with zero-length pieces).
func Chunks(t *rapid.T, n int) []int {
	mode := rapid.IntRange(0, 6).Draw(t, "chunkmode")
	var out []int
	switch mode {
	case 0:
		return []int{n}
	case 6: // a stuttering reader: reads that return no data and no error, then large pieces
		c := 0
		if n > 0 && rapid.IntRange(0, 2).Draw(t, "head") == 0 {
			c = rapid.IntRange(1, n).Draw(t, "cut")
			out = append(out, c)
		}
		for z := rapid.IntRange(1, 3).Draw(t, "zeros"); z > 0; z-- {
			out = append(out, 0)
		}
		return append(out, n-c)
	case 1, 2:
		k := rapid.IntRange(1, 17).Draw(t, "piece")
		for r := n; r > 0; r -= k {
			if r < k {
				out = append(out, r)
			} else {
				out = append(out, k)
			}
		}
		return out
	case 3:
		if n == 0 {
			return []int{0}
		}
		c := rapid.IntRange(0, n).Draw(t, "cut")
		return []int{c, n - c}
	default:
		r := n
		for r > 0 {
			k := rapid.IntRange(0, 9).Draw(t, "k")
			if rapid.IntRange(0, 6).Draw(t, "bigpiece") == 0 {
				k = rapid.IntRange(10, 600).Draw(t, "kbig")
			}
			if k > r {
				k = r
			}
			out = append(out, k)
			r -= k
		}
		return out
	}
}
