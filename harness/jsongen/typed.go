package jsongen

import (
	"encoding/base64"
	"fmt"
	"strconv"
	"strings"

	"pgregory.net/rapid"

	"verif/harness/gen"
)

// TypedCfg tunes type-directed document generation.
type TypedCfg struct {
	WrongKind   int  // 1-in-N chance of a value of an arbitrary kind (0 = never)
	Null        int  // 1-in-N chance of null
	KeyVariants bool // escaped key spellings
	CaseKeys    bool // additionally upper-/lower-cased key spellings
	Unknown     bool // unknown members
	Duplicates  bool // duplicate members
	OutOfRange  bool // integer literals beyond the destination kind
	Exotic      bool
	NoNullOn    func(*gen.TypeSpec) bool // veto null for a destination node (known-finding avoidance)
	ExactArrays bool                     // JSON arrays have exactly the Go array's length
}

var DefaultTyped = TypedCfg{WrongKind: 25, Null: 9, KeyVariants: true, Unknown: true, Duplicates: true, OutOfRange: true, Exotic: true}

// Typed draws a valid JSON text aimed at a destination of the given type.
func Typed(t *rapid.T, s *gen.TypeSpec, c TypedCfg) []byte {
	var sb strings.Builder
	typed(t, &sb, s, c, 0)
	return []byte(sb.String())
}

func tws(t *rapid.T, sb *strings.Builder) {
	if rapid.IntRange(0, 5).Draw(t, "tws") == 0 {
		sb.WriteString(rapid.SampledFrom([]string{" ", "\n", "\t", "\r\n ", "  "}).Draw(t, "tw"))
	}
}

var intBounds = map[string][]string{
	"int8": {"127", "128", "-128", "-129", "255", "256"}, "uint8": {"255", "256", "-1", "128"},
	"int16": {"32767", "32768", "-32768", "-32769", "65535"}, "uint16": {"65535", "65536", "-1"},
	"int32": {"2147483647", "2147483648", "-2147483648", "-2147483649", "4294967295"}, "uint32": {"4294967295", "4294967296", "-1"},
	"int64":  {"9223372036854775807", "9223372036854775808", "-9223372036854775808", "-9223372036854775809", "18446744073709551615", "99999999999999999999"},
	"uint64": {"18446744073709551615", "18446744073709551616", "-1", "9223372036854775808", "99999999999999999999"},
}

func init() {
	intBounds["int"] = intBounds["int64"]
	intBounds["uint"] = intBounds["uint64"]
	intBounds["uintptr"] = intBounds["uint64"]
}

func intLiteral(t *rapid.T, kind string, c TypedCfg) string {
	switch rapid.IntRange(0, 7).Draw(t, "intlit") {
	case 0, 1:
		b := intBounds[kind]
		s := rapid.SampledFrom(b).Draw(t, "bound")
		if !c.OutOfRange {
			return "7"
		}
		return s
	case 2:
		return rapid.SampledFrom([]string{"0", "-0", "1", "-1", "9", "10", "99", "100", "12345"}).Draw(t, "smallint")
	case 3:
		if c.Exotic {
			return rapid.SampledFrom([]string{"1.0", "1e2", "1E0", "0.5", "-1.5", "1e-1", "10.00", "2e0"}).Draw(t, "floatish")
		}
		return "3"
	case 4:
		return strconv.FormatInt(rapid.Int64().Draw(t, "i64"), 10)
	}
	v := rapid.IntRange(-130, 260).Draw(t, "smallrange")
	if strings.HasPrefix(kind, "uint") && v < 0 && rapid.IntRange(0, 3).Draw(t, "neg") > 0 {
		v = -v
	}
	return strconv.Itoa(v)
}

func typed(t *rapid.T, sb *strings.Builder, s *gen.TypeSpec, c TypedCfg, depth int) {
	tws(t, sb)
	defer tws(t, sb)
	if c.WrongKind > 0 && rapid.IntRange(0, c.WrongKind-1).Draw(t, "wrong") == 0 {
		cfg := Cfg{MaxDepth: 2, MaxElems: 2, Whitespace: false, Exotic: c.Exotic}
		sb.Write(Gen(t, cfg).Render())
		return
	}
	if c.Null > 0 && rapid.IntRange(0, c.Null-1).Draw(t, "null") == 0 && (c.NoNullOn == nil || !c.NoNullOn(s)) {
		sb.WriteString("null")
		return
	}
	k := s.K
	if strings.HasPrefix(k, "leaf:") {
		k = leafKind(k[5:])
	}
	jc := Cfg{MaxDepth: 2, MaxElems: 3, Whitespace: false, Exotic: c.Exotic, BigNumbers: true}
	if strings.HasPrefix(k, "leafstruct:") {
		typedStruct(t, sb, s, c, depth)
		return
	}
	switch k {
	case "bool":
		sb.WriteString(rapid.SampledFrom([]string{"true", "false"}).Draw(t, "bool"))
	case "int", "int8", "int16", "int32", "int64", "uint", "uint8", "uint16", "uint32", "uint64", "uintptr":
		sb.WriteString(intLiteral(t, k, c))
	case "float32", "float64":
		sb.WriteString(Number(t, jc))
	case "string":
		sb.WriteString(StringLit(t, jc))
	case "bytes":
		n := rapid.IntRange(0, 9).Draw(t, "blen")
		b := make([]byte, n)
		for i := range b {
			b[i] = byte(rapid.IntRange(0, 255).Draw(t, "byte"))
		}
		enc := base64.StdEncoding.EncodeToString(b)
		switch rapid.IntRange(0, 9).Draw(t, "b64mode") {
		case 0:
			enc = strings.TrimRight(enc, "=")
		case 1:
			enc = enc + "!"
		case 2:
			enc = base64.URLEncoding.EncodeToString(b)
		}
		sb.WriteString(`"` + enc + `"`)
	case "number":
		if rapid.IntRange(0, 4).Draw(t, "numstr") == 0 {
			sb.WriteString(`"` + Number(t, jc) + `"`)
		} else {
			sb.WriteString(Number(t, jc))
		}
	case "time":
		sb.WriteString(rapid.SampledFrom([]string{`"2023-03-04T05:06:07Z"`, `"1999-12-31T23:59:59.5+05:30"`, `"0001-01-01T00:00:00Z"`, `"not a time"`, `""`, `"2023-03-04T05:06:07.123456789-08:00"`}).Draw(t, "time"))
	case "raw", "iface", "recuj":
		sb.Write(Gen(t, Cfg{MaxDepth: 3, MaxElems: 3, Whitespace: true, Exotic: c.Exotic, BigNumbers: k != "iface"}).Render())
	case "recut":
		sb.WriteString(StringLit(t, jc))
	case "roundmj":
		sb.WriteString(fmt.Sprintf("[%d,%s]", rapid.IntRange(-5, 500).Draw(t, "rn"), StringLit(t, jc)))
	case "ptr":
		typed(t, sb, s.Elem, c, depth+1)
	case "slice":
		n := rapid.IntRange(0, 4).Draw(t, "slen")
		sb.WriteByte('[')
		for i := 0; i < n; i++ {
			if i > 0 {
				sb.WriteByte(',')
			}
			typed(t, sb, elemOf(s), c, depth+1)
		}
		if n == 0 {
			tws(t, sb)
		}
		sb.WriteByte(']')
	case "array":
		n := s.N
		if !c.ExactArrays {
			n += rapid.IntRange(-2, 2).Draw(t, "adelta")
		}
		if n < 0 {
			n = 0
		}
		if n > s.N+2 {
			n = s.N + 2
		}
		sb.WriteByte('[')
		for i := 0; i < n; i++ {
			if i > 0 {
				sb.WriteByte(',')
			}
			typed(t, sb, s.Elem, c, depth+1)
		}
		sb.WriteByte(']')
	case "map":
		n := rapid.IntRange(0, 3).Draw(t, "mlen")
		sb.WriteByte('{')
		var keys []string
		for i := 0; i < n; i++ {
			if i > 0 {
				sb.WriteByte(',')
			}
			var key string
			if c.Duplicates && len(keys) > 0 && rapid.IntRange(0, 5).Draw(t, "dupkey") == 0 {
				key = keys[rapid.IntRange(0, len(keys)-1).Draw(t, "which")]
			} else {
				key = mapKey(t, keyOf(s), c)
			}
			keys = append(keys, key)
			tws(t, sb)
			sb.WriteString(key)
			tws(t, sb)
			sb.WriteByte(':')
			typed(t, sb, elemOf(s), c, depth+1)
		}
		sb.WriteByte('}')
	case "struct":
		typedStruct(t, sb, s, c, depth)
	default:
		sb.Write(Gen(t, jc).Render())
	}
}

func elemOf(s *gen.TypeSpec) *gen.TypeSpec {
	if s.Elem != nil {
		return s.Elem
	}
	switch s.K {
	case "leaf:NSlice", "leaf:SliceMJ":
		return &gen.TypeSpec{K: "int"}
	case "leaf:NMap", "leaf:MapMJ":
		return &gen.TypeSpec{K: "int"}
	}
	return &gen.TypeSpec{K: "iface"}
}

func keyOf(s *gen.TypeSpec) *gen.TypeSpec {
	if s.Key != nil {
		return s.Key
	}
	return &gen.TypeSpec{K: "string"}
}

func leafKind(name string) string {
	switch name {
	case "NStr", "StrMT":
		return "string"
	case "NInt", "IntMJ", "IntKeyMT", "IntUT":
		if name == "IntUT" {
			return "recut"
		}
		return "int"
	case "NBytes":
		return "bytes"
	case "NSlice", "SliceMJ":
		return "slice"
	case "NMap", "MapMJ":
		return "map"
	case "BoolMT":
		return "bool"
	case "RecUJ":
		return "recuj"
	case "RecUT":
		return "recut"
	case "RoundMJ":
		return "roundmj"
	case "KeyMT":
		return "recut"
	}
	return "leafstruct:" + name
}

func mapKey(t *rapid.T, k *gen.TypeSpec, c TypedCfg) string {
	kk := k.K
	if strings.HasPrefix(kk, "leaf:") {
		kk = leafKind(kk[5:])
		if k.K == "leaf:KeyMT" {
			return fmt.Sprintf(`"k%03d"`, rapid.IntRange(0, 20).Draw(t, "kmt"))
		}
	}
	switch kk {
	case "string":
		return Key(t, Cfg{Exotic: c.Exotic})
	default:
		lit := intLiteral(t, kk, c)
		return `"` + lit + `"`
	}
}

// structFields flattens the JSON-visible fields (through embedded structs) as (name, type).
type sfield struct {
	name string
	t    *gen.TypeSpec
}

func structFields(s *gen.TypeSpec, out *[]sfield) {
	for i := range s.Fields {
		f := &s.Fields[i]
		u := f.T
		for u.K == "ptr" {
			u = u.Elem
		}
		name := f.Name
		tagged := false
		if f.HasTag {
			if f.Tag == "-" {
				continue
			}
			if n, _ := gen.TagName(f.Tag); n != "" {
				name, tagged = n, true
			}
		}
		if f.Embedded && !tagged && u.K == "struct" {
			structFields(u, out)
			continue
		}
		if f.Unexp {
			continue
		}
		*out = append(*out, sfield{name, f.T})
	}
}

func leafStructFields(name string) []sfield {
	i, s, b := &gen.TypeSpec{K: "int"}, &gen.TypeSpec{K: "string"}, &gen.TypeSpec{K: "bool"}
	switch name {
	case "NStruct":
		return []sfield{{"a", i}, {"b", s}}
	case "EmbA":
		return []sfield{{"A", i}, {"x", s}}
	case "EmbB":
		return []sfield{{"A", i}, {"Y", &gen.TypeSpec{K: "ptr", Elem: i}}}
	case "EmbC":
		return []sfield{{"x", s}, {"Ab", b}}
	case "ValMJ", "PtrMJ", "ValMT", "PtrMT":
		return []sfield{{"A", i}, {"S", s}}
	}
	return nil
}

func typedStruct(t *rapid.T, sb *strings.Builder, s *gen.TypeSpec, c TypedCfg, depth int) {
	var fs []sfield
	if strings.HasPrefix(s.K, "leaf:") {
		fs = leafStructFields(s.K[5:])
	} else {
		structFields(s, &fs)
	}
	type member struct {
		key string
		t   *gen.TypeSpec
	}
	var ms []member
	for _, f := range fs {
		if rapid.IntRange(0, 3).Draw(t, "include") > 0 {
			ms = append(ms, member{f.name, f.t})
			if c.Duplicates && rapid.IntRange(0, 9).Draw(t, "dup") == 0 {
				ms = append(ms, member{f.name, f.t})
			}
		}
	}
	if c.Unknown {
		for rapid.IntRange(0, 4).Draw(t, "unknown") == 0 {
			if len(fs) > 0 && rapid.IntRange(0, 2).Draw(t, "nearmiss") > 0 {
				// a key one edit away from a field name (strict prefix, extension, last letter changed), with a value
				// the field would accept: nothing may be stored for it unless Go's rules match it to a field
				f := fs[rapid.IntRange(0, len(fs)-1).Draw(t, "nmfield")]
				key, rs := f.name, []rune(f.name)
				switch rapid.IntRange(0, 3).Draw(t, "nmkind") {
				case 0, 1:
					if len(rs) > 1 {
						key = string(rs[:rapid.IntRange(1, len(rs)-1).Draw(t, "nmcut")])
					} else {
						key += "_"
					}
				case 2:
					key += rapid.SampledFrom([]string{"x", "_", "0", key}).Draw(t, "nmext")
				default:
					if len(rs) > 0 {
						key = string(rs[:len(rs)-1]) + "~"
					}
				}
				var mt *gen.TypeSpec
				if rapid.IntRange(0, 3).Draw(t, "nmtyped") > 0 {
					mt = f.t
				}
				ms = append(ms, member{key, mt})
				continue
			}
			ms = append(ms, member{rapid.SampledFrom([]string{"zz", "unknown", "", "Q", "a1", "é"}).Draw(t, "uk"), nil})
		}
	}
	// random order
	for i := len(ms) - 1; i > 0; i-- {
		j := rapid.IntRange(0, i).Draw(t, "shuffle")
		ms[i], ms[j] = ms[j], ms[i]
	}
	sb.WriteByte('{')
	for i, m := range ms {
		if i > 0 {
			sb.WriteByte(',')
		}
		key := m.key
		spellCfg := Cfg{}
		if c.KeyVariants {
			switch rapid.IntRange(0, 9).Draw(t, "keyvar") {
			case 0:
				if c.CaseKeys {
					key = strings.ToUpper(key)
				}
			case 1:
				if c.CaseKeys {
					key = strings.ToLower(key)
				}
			case 2, 3, 4:
				spellCfg.Exotic = true
			}
		}
		tws(t, sb)
		sb.WriteString(Spell(t, key, spellCfg))
		tws(t, sb)
		sb.WriteByte(':')
		if m.t == nil {
			sb.Write(Gen(t, Cfg{MaxDepth: 2, MaxElems: 2, Whitespace: true, Exotic: c.Exotic}).Render())
		} else {
			typed(t, sb, m.t, c, depth+1)
		}
	}
	if len(ms) == 0 {
		tws(t, sb)
	}
	sb.WriteByte('}')
}
