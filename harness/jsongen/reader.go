package jsongen

import "io"

// ChunkReader delivers data in pieces of the given lengths (0 = a zero-length read), then io.EOF.
// If FailAt >= 0 it returns Err once that many bytes were delivered (together with the last piece
// when WithData is set).
type ChunkReader struct {
	Data     []byte
	Pieces   []int
	FailAt   int // -1 = never
	Err      error
	WithData bool
	pos, pi  int
	Bounds   []int // offsets at which a Read returned (the delivery schedule actually observed)
}

func NewChunkReader(data []byte, pieces []int) *ChunkReader {
	return &ChunkReader{Data: data, Pieces: pieces, FailAt: -1}
}

func (r *ChunkReader) Read(p []byte) (int, error) {
	if r.FailAt >= 0 && r.pos >= r.FailAt {
		return 0, r.Err
	}
	if r.pos >= len(r.Data) {
		return 0, io.EOF
	}
	n := len(r.Data) - r.pos
	if r.pi < len(r.Pieces) {
		n = r.Pieces[r.pi]
		r.pi++
	}
	if n > len(p) {
		// the piece does not fit: deliver what fits and keep the rest of the piece for the next read
		if r.pi <= len(r.Pieces) && r.pi > 0 {
			r.pi--
			r.Pieces[r.pi] = n - len(p)
		}
		n = len(p)
	}
	if n > len(r.Data)-r.pos {
		n = len(r.Data) - r.pos
	}
	if r.FailAt >= 0 && r.pos+n > r.FailAt {
		n = r.FailAt - r.pos
	}
	copy(p, r.Data[r.pos:r.pos+n])
	r.pos += n
	if n > 0 {
		r.Bounds = append(r.Bounds, r.pos)
	}
	if r.FailAt >= 0 && r.pos >= r.FailAt && r.WithData {
		return n, r.Err
	}
	return n, nil
}
