module verif/harness

go 1.23

require (
	github.com/goccy/go-json v0.10.2
	pgregory.net/rapid v1.3.0
)

replace github.com/goccy/go-json => /repo
