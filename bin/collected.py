#!/usr/bin/env python3
"""Development aid: merges .build/run/<prop>/*/collected.json and prints buckets."""
import glob, json, sys
prop = sys.argv[1]
agg = {}
for f in glob.glob("/verif/.build/run/%s/*/collected.json" % prop):
    for k, v in json.load(open(f)).items():
        a = agg.setdefault(k, {"N": 0, "Case": None, "Msg": ""})
        a["N"] += v["N"]
        if a["Case"] is None or len(json.dumps(v["Case"])) < len(json.dumps(a["Case"])):
            a["Case"], a["Msg"] = v["Case"], v["Msg"]
rows = sorted(agg.items(), key=lambda kv: -kv[1]["N"])
print(len(rows), "buckets")
lim = int(sys.argv[2]) if len(sys.argv) > 2 else 60
for k, v in rows[:lim]:
    c = v["Case"]
    print("== %6d  %s" % (v["N"], k))
    print("     type:", c.get("type") if isinstance(c, dict) else c, "| reach", c.get("reach") if isinstance(c, dict) else "", "| entry", c.get("entry") if isinstance(c, dict) else "")
    print("     ", v["Msg"].replace("\n", "\n      ")[:700])
