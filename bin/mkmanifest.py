#!/usr/bin/env python3
"""Regenerates /verif/MANIFEST.json from bin/checks_conf.py (claimed checks) and properties.jsonl."""
import json, os, sys
VERIF = os.path.dirname(os.path.dirname(os.path.abspath(__file__)))
sys.path.insert(0, os.path.join(VERIF, "bin"))
from checks_conf import CHECKS, HOOK_COMMITS, NOT_APPLICABLE

props = [json.loads(l) for l in open(os.path.join(VERIF, "properties.jsonl"))]
checks = []
for p in props:
    pid = p["id"]
    if pid not in CHECKS:
        continue
    c = CHECKS[pid]
    checks.append({
        "property_id": pid,
        "quick_cmd": "python3 bin/verif.py check %s --tier quick" % pid,
        "thorough_cmd": "python3 bin/verif.py check %s --tier thorough" % pid,
        "evidence_file": "evidence/%s.json" % pid,
        "replay_cmd_template": "python3 bin/verif.py replay {path}",
        "engine": "verif-harness",
        "level_claimed": {"category": c.get("level", "exploration"), "text": c["level_text"], "design_ref": "DESIGN.md §6 " + pid},
        "level_note": c["level_note"],
        "technique": c["technique"],
    })
na = [{"property_id": p["id"], "reason": NOT_APPLICABLE.get(p["id"], "check not built yet in this session (work in progress); the technique applies, see DESIGN.md §6")}
      for p in props if p["id"] not in CHECKS]
m = {
    "version": 1,
    "setup_cmd": "python3 bin/verif.py setup",
    "hooks": {
        "guard": "verif (Go build tag)",
        "enable": "go test -tags verif (only the checks that need the hooks, C08 and C14, build with the tag)",
        "baseline_off_cmd": "cd /repo && GOFLAGS=-mod=mod GOPROXY=off GOTOOLCHAIN=local go test -json -vet=off -count=1 -timeout 25m ./...",
        "source_commits": HOOK_COMMITS,
        "add_only": True,
    },
    "engines": [{"name": "verif-harness", "path": "harness/", "serves_properties": sorted(CHECKS.keys()),
                 "kind_free_text": "Go test binaries (pgregory.net/rapid v1.3.0 generators + exhaustive small-scope enumerators) run as supervised, sharded child processes by bin/verif.py; oracles: encoding/json, an RFC 8259 recogniser, strconv, reference evaluators, metamorphic relations"}],
    "checks": checks,
    "notes": "All checks rebuild their test binary from /repo's working tree on every invocation (go.mod replace => /repo). Exit 0 = held (possibly with KNOWN-FINDING lines for entries of known_findings.json), 1 = VIOLATION line, 2 = inconclusive/infrastructure.",
    "not_applicable": na,
}
with open(os.path.join(VERIF, "MANIFEST.json"), "w") as f:
    json.dump(m, f, indent=1)
    f.write("\n")
print("MANIFEST.json: %d checks, %d not claimed" % (len(checks), len(na)))
