#!/usr/bin/env python3
"""confirm_mutant.py <mutant-dir> <seed-id> [check ids...]
Confirms a sub-agent's mutant in a scratch worktree (applies, builds, full suite passes, demo fails with / passes
without), then runs the named checks' quick tier against /repo with the patch applied (and reverts it), and stores
everything under /verif/seeded/<seed-id>/."""
import json, os, re, shutil, subprocess, sys, tempfile
VERIF = os.path.dirname(os.path.dirname(os.path.abspath(__file__)))
ENV = dict(os.environ, GOFLAGS="-mod=mod", GOPROXY="off", GOSUMDB="off", GOTOOLCHAIN="local")

def sh(cmd, cwd=None, timeout=1800):
    r = subprocess.run(cmd, cwd=cwd, env=ENV, shell=isinstance(cmd, str), stdout=subprocess.PIPE, stderr=subprocess.STDOUT, timeout=timeout)
    return r.returncode, r.stdout.decode(errors="replace")

def main():
    src, sid = sys.argv[1], sys.argv[2]
    checks = sys.argv[3:]
    patch = os.path.join(src, "patch.diff")
    demo = os.path.join(src, "demo_test.go")
    meta = json.load(open(os.path.join(src, "meta.json")))
    wt = tempfile.mkdtemp(prefix="confirm-", dir="/tmp")
    os.rmdir(wt)
    ran = []
    ok = True
    try:
        rc, out = sh(["git", "-C", "/repo", "worktree", "add", "--detach", wt, "HEAD"])
        assert rc == 0, out
        rc, out = sh(["git", "apply", "--3way", patch], cwd=wt)
        ran.append("git apply patch.diff -> rc=%d" % rc)
        if rc != 0:
            print(out); ok = False
        if ok:
            rc, out = sh("go build ./... && go test -vet=off -count=1 ./... 2>&1 | tail -15", cwd=wt)
            suite_ok = rc == 0 and "FAIL" not in out
            ran.append("with patch: go build ./... && go test -vet=off -count=1 ./... -> %s" % ("all ok" if suite_ok else "FAILED"))
            if not suite_ok:
                print(out); ok = False
        m = re.search(r"func (Test\w+)\(", open(demo).read())
        tests = "|".join(re.findall(r"func (Test\w+)\(", open(demo).read()))
        if ok:
            shutil.copy(demo, os.path.join(wt, "zz_demo_test.go"))
            rc, out = sh(["go", "test", "-vet=off", "-count=1", "-run", "^(%s)$" % tests, "."], cwd=wt)
            ran.append("with patch: demo (%s) -> %s" % (tests, "FAIL (as required)" if rc != 0 else "passes (NOT a mutant)"))
            if rc == 0:
                ok = False
            os.remove(os.path.join(wt, "zz_demo_test.go"))
            sh(["git", "checkout", "--", "."], cwd=wt)
            sh(["git", "reset", "-q", "--hard", "HEAD"], cwd=wt)
            shutil.copy(demo, os.path.join(wt, "zz_demo_test.go"))
            rc, out = sh(["go", "test", "-vet=off", "-count=1", "-run", "^(%s)$" % tests, "."], cwd=wt)
            ran.append("without patch: demo -> %s" % ("passes (as required)" if rc == 0 else "FAILS on clean tree"))
            if rc != 0:
                print(out[-2000:]); ok = False
    finally:
        sh(["git", "-C", "/repo", "worktree", "remove", "--force", wt])
        shutil.rmtree(wt, ignore_errors=True)
    results = {}
    if ok and checks:
        rc, out = sh(["git", "-C", "/repo", "status", "--porcelain"])
        assert out.strip() == "", "/repo not clean: " + out
        rc, out = sh(["git", "-C", "/repo", "apply", "--3way", patch])
        try:
            assert rc == 0, out
            sh(["git", "-C", "/repo", "reset", "-q"])  # --3way stages; unstage
            for c in checks:
                rc, out = sh(["python3", os.path.join(VERIF, "bin", "verif.py"), "check", c, "--tier", "quick"], cwd=VERIF, timeout=3600)
                vio = [l for l in out.splitlines() if l.startswith("VIOLATION")]
                results[c] = {"exit": rc, "violations": len(vio), "first": (re.findall(r"\n  \[[^\n]*", out) or [""])[0].strip()[:400]}
                for l in vio:
                    p = l.split("replay=")[1].strip()
                    if os.path.exists(p):
                        os.remove(p)  # replay files of seeded mutants are not kept
        finally:
            sh(["git", "-C", "/repo", "checkout", "--", "."])
            sh(["git", "-C", "/repo", "clean", "-fdq", "--", "."])
    dst = os.path.join(VERIF, "seeded", sid)
    os.makedirs(dst, exist_ok=True)
    shutil.copy(patch, os.path.join(dst, "patch.diff"))
    shutil.copy(demo, os.path.join(dst, "demo_test.go"))
    meta["confirmed"] = ok
    meta["confirmed_by_me"] = ran
    meta["quick_check_results"] = results
    json.dump(meta, open(os.path.join(dst, "meta.json"), "w"), indent=1)
    print(json.dumps({"id": sid, "confirmed": ok, "ran": ran, "results": results}, indent=1))

main()
