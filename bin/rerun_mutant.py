#!/usr/bin/env python3
"""rerun_mutant.py <seed-id> <check ids...>: applies seeded/<seed-id>/patch.diff to /repo, runs the quick tier of the named
checks, reverts /repo, and records the outcome in the mutant's meta.json (earlier outcomes move to quick_check_history)."""
import json, os, re, subprocess, sys
VERIF = os.path.dirname(os.path.dirname(os.path.abspath(__file__)))
ENV = dict(os.environ, GOFLAGS="-mod=mod", GOPROXY="off", GOSUMDB="off", GOTOOLCHAIN="local", VERIF_SEED="1")
def sh(cmd, **kw):
    r = subprocess.run(cmd, env=ENV, stdout=subprocess.PIPE, stderr=subprocess.STDOUT, **kw)
    return r.returncode, r.stdout.decode(errors="replace")
sid, checks = sys.argv[1], sys.argv[2:]
d = os.path.join(VERIF, "seeded", sid)
meta = json.load(open(os.path.join(d, "meta.json")))
assert sh(["git", "-C", "/repo", "status", "--porcelain"])[1].strip() == "", "/repo not clean"
rc, out = sh(["git", "-C", "/repo", "apply", os.path.join(d, "patch.diff")])
assert rc == 0, out
res = {}
try:
    for c in checks:
        rc, out = sh(["python3", os.path.join(VERIF, "bin", "verif.py"), "check", c, "--tier", "quick"], cwd=VERIF, timeout=3600)
        vio = [l for l in out.splitlines() if l.startswith("VIOLATION")]
        res[c] = {"exit": rc, "violations": len(vio), "first": (re.findall(r"\n  \[[^\n]*", out) or [""])[0].strip()[:400]}
        for l in vio:
            p = l.split("replay=")[1].strip()
            if os.path.exists(p):
                os.remove(p)
finally:
    sh(["git", "-C", "/repo", "checkout", "--", "."])
    sh(["git", "-C", "/repo", "clean", "-fdq", "--", "."])
old = meta.get("quick_check_results") or {}
if old:
    meta.setdefault("quick_check_history", []).append(old)
meta["quick_check_results"] = dict(old, **res)
json.dump(meta, open(os.path.join(d, "meta.json"), "w"), indent=1)
print(sid, json.dumps(res))
