#!/usr/bin/env python3
"""Driver for the go-json verification checks (see /verif/DESIGN.md).

  verif.py setup                         build every check binary once (warms the Go build cache)
  verif.py check C05 [--tier quick|thorough] [--keep-going] [--repo DIR]
  verif.py replay <replay-file>

Exit codes of `check` / `replay`: 0 property held on everything explored, 1 violation
(`VIOLATION property=<id> replay=<path>` on stdout), 2 infrastructure problem / inconclusive.
"""
import argparse, hashlib, json, os, re, resource, shutil, signal, struct, subprocess, sys, time

VERIF = os.path.dirname(os.path.dirname(os.path.abspath(__file__)))
HARNESS = os.path.join(VERIF, "harness")
BUILD = os.path.join(VERIF, ".build")
GOENV = {"GOFLAGS": "-mod=mod", "GOPROXY": "off", "GOSUMDB": "off", "GOTOOLCHAIN": "local"}

sys.path.insert(0, os.path.dirname(os.path.abspath(__file__)))
from checks_conf import CHECKS  # noqa: E402


def log(*a):
    print(*a, file=sys.stderr, flush=True)


def goenv(extra=None):
    e = dict(os.environ)
    e.update(GOENV)
    e.setdefault("GOCACHE", os.path.join(os.path.expanduser("~"), ".cache", "go-build"))
    if extra:
        e.update(extra)
    return e


def seed_value():
    try:
        s = int(os.environ.get("VERIF_SEED", "1"))
    except ValueError:
        s = 1
    s = abs(s) % (1 << 62)
    return s or 1


def repo_dir(args):
    return os.path.abspath(getattr(args, "repo", None) or os.environ.get("VERIF_REPO") or "/repo")


def prepare_module(repo):
    """The harness module replaces go-json by `repo`.  For the default /repo the committed go.mod is
    used as it is; for a scratch copy (sensitivity experiments only) a private copy of the harness
    module is made under .build so /verif/harness is never edited by a run."""
    if repo == "/repo":
        return HARNESS
    tag = hashlib.sha1(repo.encode()).hexdigest()[:10]
    dst = os.path.join(BUILD, "harness-" + tag)
    if os.path.exists(dst):
        shutil.rmtree(dst)
    shutil.copytree(HARNESS, dst)
    p = os.path.join(dst, "go.mod")
    s = open(p).read().replace("=> /repo", "=> " + repo)
    open(p, "w").write(s)
    return dst


def build_variant(moddir, prop, conf, variant, env_extra=None):
    """go test -c for one build variant; returns path of the binary or raises."""
    os.makedirs(os.path.join(BUILD, "bin"), exist_ok=True)
    out = os.path.join(BUILD, "bin", "%s-%s-%s.test" % (prop, variant["name"], os.path.basename(moddir)))
    cmd = ["go", "test", "-c", "-vet=off", "-o", out]
    if variant.get("tags"):
        cmd += ["-tags", variant["tags"]]
    if variant.get("race"):
        cmd += ["-race"]
    if variant.get("gcflags"):
        cmd += ["-gcflags=" + variant["gcflags"]]
    cmd += ["./checks/" + conf["pkg"]]
    t0 = time.time()
    r = subprocess.run(cmd, cwd=moddir, env=goenv(env_extra), stdout=subprocess.PIPE, stderr=subprocess.STDOUT)
    if r.returncode != 0 or not os.path.exists(out):
        raise RuntimeError("build failed (%s):\n%s" % (" ".join(cmd), r.stdout.decode(errors="replace")[-6000:]))
    log("[build] %s %s %.1fs" % (prop, variant["name"], time.time() - t0))
    return out


def gen_corpus(moddir, prop, conf, tier, seed):
    c = conf.get("corpus")
    if not c:
        return
    n = c[tier]
    cmd = ["go", "run", "./cmd/gencorpus", "-seed", str(seed), "-n", str(n), "-profile", c.get("profile", "mixed"),
           "-pkg", conf["pkg"], "-out", os.path.join(moddir, "checks", conf["pkg"], "corpus_gen_test.go")]
    r = subprocess.run(cmd, cwd=moddir, env=goenv(), stdout=subprocess.PIPE, stderr=subprocess.STDOUT)
    if r.returncode != 0:
        raise RuntimeError("corpus generation failed:\n" + r.stdout.decode(errors="replace")[-4000:])


def limit_child(mem_gb):
    def f():
        os.setsid()
        if mem_gb:
            lim = int(mem_gb * (1 << 30))
            try:
                resource.setrlimit(resource.RLIMIT_AS, (lim, lim))
            except Exception:
                pass
        resource.setrlimit(resource.RLIMIT_CORE, (0, 0))
    return f


def cpu_seconds(pid):
    try:
        with open("/proc/%d/stat" % pid) as f:
            parts = f.read().rsplit(")", 1)[1].split()
        return (int(parts[11]) + int(parts[12])) / os.sysconf("SC_CLK_TCK")
    except Exception:
        return None


def read_journal(outdir):
    try:
        with open(os.path.join(outdir, "journal"), "rb") as f:
            head = f.read(8)
            if len(head) < 8:
                return None, 0
            ln, seq = struct.unpack("<II", head)
            body = f.read(ln) if ln else b""
        return body.decode(errors="replace"), seq
    except Exception:
        return None, 0


def journal_seq(outdir):
    try:
        with open(os.path.join(outdir, "journal"), "rb") as f:
            head = f.read(8)
        return struct.unpack("<II", head)[1] if len(head) == 8 else 0
    except Exception:
        return 0


CRASH_RE = re.compile(r"(WARNING: DATA RACE|fatal error: [^\n]*|unexpected signal[^\n]*|panic: [^\n]*|SIGSEGV[^\n]*|signal: [a-z ]+|runtime: out of memory[^\n]*|found bad pointer[^\n]*|checkptr: [^\n]*)")


class Shard:
    def __init__(self, prop, variant, binary, idx, nshards, tier, seed, active, extra_env, mem_gb, test_run="^TestCheck$"):
        self.prop, self.variant, self.binary, self.idx = prop, variant, binary, idx
        self.out = os.path.join(BUILD, "run", prop, "%s-%02d" % (variant["name"], idx))
        if os.path.exists(self.out):
            shutil.rmtree(self.out)
        os.makedirs(self.out)
        env = dict(os.environ)
        env.update({"VERIF_OUT": self.out, "VERIF_TIER": tier, "VERIF_SEED": str(seed), "VERIF_SHARD": str(idx),
                    "VERIF_NSHARDS": str(nshards), "VERIF_ACTIVE": ",".join(sorted(active)), "VERIF_VARIANT": variant["name"],
                    "VERIF_ROOT": VERIF})
        if variant.get("race"):
            env["GORACE"] = "halt_on_error=1 exitcode=66"
        env.update(variant.get("env", {}))
        env.update(extra_env or {})
        self.logpath = os.path.join(self.out, "log.txt")
        self.logf = open(self.logpath, "wb")
        cmd = [binary, "-test.run", test_run, "-test.timeout", "0", "-test.count", "1"]
        if variant.get("test_v"):
            cmd.append("-test.v")
        self.t0 = time.time()
        self.proc = subprocess.Popen(cmd, cwd=self.out, env=env, stdout=self.logf, stderr=subprocess.STDOUT,
                                     preexec_fn=limit_child(None if variant.get("race") else mem_gb))
        self.last_seq = -1
        self.cpu_at_seq = 0.0
        self.hung = False
        self.killed_for = None

    def poll(self, hang_cpu, wall_limit):
        rc = self.proc.poll()
        if rc is not None:
            return rc
        seq = journal_seq(self.out)
        cpu = cpu_seconds(self.proc.pid) or 0.0
        if seq != self.last_seq:
            self.last_seq, self.cpu_at_seq, self.wall_at_seq = seq, cpu, time.time()
        elif hang_cpu and cpu - self.cpu_at_seq > hang_cpu:
            self.hung = True
            self.kill("hang: %.0fs CPU without progress" % (cpu - self.cpu_at_seq))
        elif self.variant.get("stall_wall") and time.time() - getattr(self, "wall_at_seq", self.t0) > self.variant["stall_wall"] and cpu - self.cpu_at_seq < 2.0:
            self.hung = True
            self.kill("deadlock: %.0fs without progress and without CPU use" % (time.time() - getattr(self, "wall_at_seq", self.t0)))
        if wall_limit and time.time() - self.t0 > wall_limit and self.proc.poll() is None:
            self.kill("wall budget %.0fs exceeded" % wall_limit)
        return self.proc.poll()

    def kill(self, why):
        self.killed_for = why
        try:
            os.killpg(self.proc.pid, signal.SIGKILL)
        except Exception:
            pass
        try:
            self.proc.wait(timeout=10)
        except Exception:
            pass

    def finish(self):
        self.logf.close()
        self.wall = time.time() - self.t0
        with open(self.logpath, "rb") as f:
            self.log = f.read().decode(errors="replace")
        self.rc = self.proc.returncode
        self.stats = None
        p = os.path.join(self.out, "stats.json")
        if os.path.exists(p):
            try:
                self.stats = json.load(open(p))
            except Exception:
                self.stats = None
        self.fails = []
        for fn in sorted(os.listdir(self.out)):
            if fn.startswith("fail-") and fn.endswith(".json"):
                try:
                    self.fails.append(json.load(open(os.path.join(self.out, fn))))
                except Exception:
                    pass


def run_shards(shards_spec, hang_cpu, wall_limit, parallel=16):
    """shards_spec: list of callables creating Shard objects (started lazily to bound parallelism)."""
    pending = list(shards_spec)
    running, done = [], []
    while pending or running:
        while pending and len(running) < parallel:
            running.append(pending.pop(0)())
        time.sleep(0.2)
        still = []
        for s in running:
            if s.poll(hang_cpu, wall_limit) is None:
                still.append(s)
            else:
                s.finish()
                done.append(s)
        running = still
    return done


def save_replay(prop, payload):
    d = os.path.join(VERIF, "replay", prop)
    os.makedirs(d, exist_ok=True)
    blob = json.dumps(payload, indent=1, sort_keys=True, ensure_ascii=False)
    h = hashlib.sha1(json.dumps([payload.get("subcheck"), payload.get("case")], sort_keys=True).encode()).hexdigest()[:12]
    p = os.path.join(d, "viol-%s.json" % h)
    with open(p, "w") as f:
        f.write(blob + "\n")
    return p


def load_known(prop):
    p = os.path.join(VERIF, "known_findings.json")
    if not os.path.exists(p):
        return []
    data = json.load(open(p))
    return [e for e in data.get("findings", []) if e.get("property") == prop or prop in e.get("properties", [])]


def cmd_check(args):
    prop = args.prop.upper()
    if prop not in CHECKS:
        log("unknown property", prop)
        return 2
    conf = CHECKS[prop]
    tier = args.tier or os.environ.get("VERIF_TIER") or "quick"
    if tier not in ("quick", "thorough"):
        tier = "quick"
    seed = seed_value()
    repo = repo_dir(args)
    t_start = time.time()
    try:
        moddir = prepare_module(repo)
        gen_corpus(moddir, prop, conf, tier, seed)
        bins = {}
        todo = [v for v in conf["variants"] if tier in v.get("tiers", ("quick", "thorough"))]
        import concurrent.futures
        with concurrent.futures.ThreadPoolExecutor(max_workers=len(todo)) as ex:
            futs = [(v, ex.submit(build_variant, moddir, prop, conf, v)) for v in todo]
            for v, fu in futs:
                bins[v["name"]] = (v, fu.result())
    except RuntimeError as e:
        log(str(e))
        print("INCONCLUSIVE property=%s reason=build" % prop)
        return 2

    known = load_known(prop)
    open_kf = [e for e in known if e.get("status") == "open"]
    fixed_kf = [e for e in known if e.get("status") == "fixed"]
    violations = []   # (replay payload)
    infra = []
    main_variant, main_bin = list(bins.values())[0]
    mem_gb = conf.get("mem_gb", 6)
    hang_cpu = conf.get("hang_cpu", 90)

    # --- stage 1: witnesses of open findings and regression replays of fixed ones (one process each)
    wspecs = []
    for e in open_kf + fixed_kf:
        vname = e.get("variant") or main_variant["name"]
        if vname not in bins:
            continue
        v, b = bins[vname]
        wspecs.append((e, (lambda e=e, v=v, b=b: Shard(prop, dict(v, name="w-" + e["id"]), b, 0, 1, tier, seed, [], {"VERIF_WITNESS": e["id"]}, mem_gb, "^TestWitness$"))))
    active = set()
    if wspecs:
        done = run_shards([s for _, s in wspecs], conf.get("witness_hang_cpu", 60), 600)
        by_id = {}
        for s in done:
            by_id[s.variant["name"][2:]] = s
        for e, _ in wspecs:
            s = by_id[e["id"]]
            res = None
            p = os.path.join(s.out, "witness.json")
            if os.path.exists(p):
                try:
                    res = json.load(open(p))
                except Exception:
                    res = None
            crashed = res is None and (s.rc != 0 or s.killed_for)
            if res is None and not crashed:
                infra.append("witness %s produced no result:\n%s" % (e["id"], s.log[-1500:]))
                continue
            still = bool(res["still_fails"]) if res is not None else True
            if crashed and not e.get("crash"):
                # the witness input now kills the process although the finding is not a crash finding
                violations.append({"property": prop, "subcheck": "witness/" + e["id"], "case": {"witness": e["id"]},
                                   "msg": "witness of %s now kills the process: %s" % (e["id"], (s.killed_for or first_crash_line(s.log)))})
                continue
            if e.get("status") == "open":
                if still:
                    active.add(e["id"])
                elif e.get("nondeterministic"):
                    # the defect depends on memory reuse / scheduling: a witness that happens to pass proves
                    # nothing, so the listed cases stay constructed-around (the finding is still listed)
                    active.add(e["id"])
                    log("[known] witness of %s did not reproduce this time (nondeterministic finding); its selector stays active" % e["id"])
                else:
                    log("[known] %s no longer reproduces; its selector is disabled for this run" % e["id"])
            else:  # fixed: must pass
                if still:
                    violations.append({"property": prop, "subcheck": "regress/" + e["id"], "case": {"witness": e["id"]},
                                       "msg": "regression: fixed finding %s fails again: %s" % (e["id"], (res or {}).get("detail", first_crash_line(s.log)))})

    # --- stage 1b: regression replays (shrunk failures of defects that were fixed): must pass
    rdir = os.path.join(VERIF, "replay", prop, "regress")
    if os.path.isdir(rdir):
        rspecs = []
        files = sorted(f for f in os.listdir(rdir) if f.endswith(".json"))
        for i, fn in enumerate(files):
            path = os.path.join(rdir, fn)
            try:
                vname = json.load(open(path)).get("variant")
            except Exception:
                vname = None
            v, b = bins.get(vname, (main_variant, main_bin)) if vname in bins else (main_variant, main_bin)
            rspecs.append((path, (lambda v=v, b=b, i=i, path=path: Shard(prop, dict(v, name="r-%d" % i), b, 0, 1, tier, seed, [], {"VERIF_REPLAY": path}, mem_gb, "^TestReplay$"))))
        done_r = run_shards([s for _, s in rspecs], conf.get("hang_cpu", 90), 600)
        by_name = {s.variant["name"]: s for s in done_r}
        for i, (path, _) in enumerate(rspecs):
            s = by_name["r-%d" % i]
            if s.rc != 0 or s.killed_for or s.fails:
                violations.append({"property": prop, "subcheck": "regress/" + os.path.basename(path), "case": {"regress": os.path.relpath(path, VERIF)},
                                   "msg": "regression replay %s fails again: %s" % (os.path.basename(path), (s.fails[0]["msg"] if s.fails else first_crash_line(s.log) or s.log[-600:]))})

    # --- stage 2: the search itself
    specs = []
    nshards_total = 0
    for vname, (v, b) in bins.items():
        n = v.get("shards", conf.get("shards", {"quick": 16, "thorough": 16}))[tier] if isinstance(v.get("shards", conf.get("shards")), dict) else 16
        for i in range(n):
            specs.append(lambda v=v, b=b, i=i, n=n: Shard(prop, v, b, i, n, tier, seed, active, {}, mem_gb))
        nshards_total += n
    wall_limit = conf.get("wall", {"quick": 900, "thorough": 7200})[tier]
    done = run_shards(specs, hang_cpu, wall_limit, parallel=conf.get("parallel", 16))

    agg = {"counters": {}, "labels": {}, "nt_direct": 0, "samples": {}, "known_hits": {}, "excluded": {}, "exhaustive": set(), "notes": []}
    nt = set()
    for s in done:
        if s.stats:
            for k in ("counters", "labels", "known_hits", "excluded"):
                for kk, vv in (s.stats.get(k) or {}).items():
                    agg[k][kk] = agg[k].get(kk, 0) + vv
            agg["nt_direct"] += s.stats.get("nt_direct") or 0
            for sub, l in (s.stats.get("samples") or {}).items():
                cur = agg["samples"].setdefault(sub, [])
                for x in l:
                    if len(cur) < 5:
                        cur.append(x)
            for x in (s.stats.get("exhaustive") or []):
                agg["exhaustive"].add(x)
            for x in (s.stats.get("notes") or []):
                if x not in agg["notes"]:
                    agg["notes"].append(x)
            try:
                with open(os.path.join(s.out, "nt.bin"), "rb") as f:
                    data = f.read()
                nt.update(struct.unpack("<%dQ" % (len(data) // 8), data))
            except Exception:
                pass
        # classify the shard's end
        if s.fails:
            for f in s.fails:
                f = dict(f)
                f["variant"] = s.variant["name"]
                violations.append(f)
        if s.rc == 0 and not s.killed_for:
            if not s.stats:
                infra.append("shard %s/%d exited 0 without statistics" % (s.variant["name"], s.idx))
            continue
        if s.hung:
            body, _ = read_journal(s.out)
            violations.append(journal_payload(prop, s, body, "hang: " + s.killed_for))
            continue
        if s.killed_for:
            infra.append("shard %s/%d killed: %s" % (s.variant["name"], s.idx, s.killed_for))
            continue
        if s.fails and "FAIL" in s.log and not crashed_log(s.log):
            continue  # ordinary test failure, already recorded
        crash = first_crash_line(s.log)
        if "WARNING: DATA RACE" in s.log:
            k = s.log.index("WARNING: DATA RACE")
            report = s.log[k:k + 6000]
            report = report.split("==================")[0]
            if "github.com/goccy/go-json" in report:
                body, _ = read_journal(s.out)
                pl = journal_payload(prop, s, body, "the race detector reports a data race inside go-json: " + " <- ".join(l.strip() for l in report.splitlines()[1:6]))
                pl["subcheck"] = "data-race"
                violations.append(pl)
            else:
                infra.append("shard %s/%d: data race outside go-json (harness):\n%s" % (s.variant["name"], s.idx, report[:1500]))
            continue
        if crash or s.rc < 0 or s.rc not in (0, 1):
            if "cannot allocate memory" in s.log and "runtime: out of memory" not in s.log and not crash:
                infra.append("shard %s/%d: ENOMEM" % (s.variant["name"], s.idx))
                continue
            if s.rc == -9 and not crash:
                # SIGKILL that the driver did not send and no Go diagnostic: the kernel's OOM killer
                infra.append("shard %s/%d killed by SIGKILL from outside (machine out of memory?)" % (s.variant["name"], s.idx))
                continue
            body, _ = read_journal(s.out)
            violations.append(journal_payload(prop, s, body, "process died: %s (rc=%s)" % (crash or "no diagnostic", s.rc)))
            continue
        if s.rc == 1 and not s.fails:
            infra.append("shard %s/%d failed without a failing-case file:\n%s" % (s.variant["name"], s.idx, s.log[-3000:]))

    # required labels / self checks signalled by the children
    harness_err = agg["counters"].get("harness_error", 0)
    if harness_err:
        infra.append("%d harness self-check errors (see shard logs under %s)" % (harness_err, os.path.join(BUILD, "run", prop)))

    # --- report
    wall = time.time() - t_start
    uniq = {}
    for v in violations:
        key = json.dumps([v.get("subcheck"), v.get("case")], sort_keys=True)
        uniq.setdefault(key, v)
    # keep one violation per sub-check (the smallest case) to avoid flooding
    per_sub = {}
    for v in uniq.values():
        k = v.get("subcheck")
        if k not in per_sub or len(json.dumps(v.get("case"))) < len(json.dumps(per_sub[k].get("case"))):
            per_sub[k] = v
    vio_paths = []
    for v in per_sub.values():
        v.setdefault("property", prop)
        if conf.get("corpus"):
            v.setdefault("corpus_seed", seed)
            v.setdefault("corpus_tier", tier)
        vio_paths.append((save_replay(prop, v), v))

    evaluations = int(sum(v for k, v in agg["counters"].items() if k.startswith("cases/")))
    distinct = len(nt) + int(agg["nt_direct"])
    samples = []
    for sub, l in sorted(agg["samples"].items()):
        for x in l[:3]:
            samples.append({"subcheck": sub, "case": x})
    ev = {
        "property_id": prop, "tier": tier, "seed": seed, "level": conf.get("level", "exploration"),
        "coverage": {
            "evaluations": evaluations, "distinct_nontrivial": distinct, "rule": conf["rule"],
            "samples": samples[:40],
            "subchecks": {k[len("cases/"):]: v for k, v in sorted(agg["counters"].items()) if k.startswith("cases/")},
            "counters": {k: v for k, v in sorted(agg["counters"].items()) if not k.startswith(("cases/", "samples_offered/"))},
            "labels": dict(sorted(agg["labels"].items())),
            "excluded_by_known_finding": agg["excluded"], "known_hits": agg["known_hits"],
            "active_known_findings": sorted(active),
            "exhaustive": bool(agg["exhaustive"]) and conf.get("exhaustive_all", False),
            "exhaustive_subspaces": sorted(agg["exhaustive"]),
            "shards": nshards_total, "variants": sorted(bins.keys()), "notes": agg["notes"],
        },
        "assumptions": conf.get("assumptions", []),
        "wall_s": round(wall, 2), "violations": len(vio_paths),
    }
    os.makedirs(os.path.join(VERIF, "evidence"), exist_ok=True)
    with open(os.path.join(VERIF, "evidence", prop + ".json"), "w") as f:
        json.dump(ev, f, indent=1, ensure_ascii=False)
        f.write("\n")

    for e in open_kf:
        if e["id"] in active:
            print("KNOWN-FINDING: property=%s %s %s" % (prop, e["id"], e["what"]))
    for p, v in vio_paths:
        print("VIOLATION property=%s replay=%s" % (prop, p))
        log("  [%s] %s" % (v.get("subcheck"), (v.get("msg") or "")[:1500]))
    print("SUMMARY property=%s tier=%s seed=%d evaluations=%d distinct_nontrivial=%d violations=%d known_active=%d wall=%.1fs"
          % (prop, tier, seed, evaluations, distinct, len(vio_paths), len(active), wall))
    if vio_paths:
        return 1
    if infra:
        for x in infra:
            log("[infra] " + x)
        print("INCONCLUSIVE property=%s reason=infrastructure" % prop)
        return 2
    for lbl in conf.get("required_labels", {}).get(tier, conf.get("required_labels", {}).get("all", [])):
        if agg["labels"].get(lbl, 0) == 0:
            log("[infra] required label %r has no members: the generator does not reach the shape that matters" % lbl)
            print("INCONCLUSIVE property=%s reason=required-label-empty" % prop)
            return 2
    if evaluations == 0:
        print("INCONCLUSIVE property=%s reason=no-cases" % prop)
        return 2
    return 0


def crashed_log(text):
    return bool(re.search(r"fatal error: |unexpected signal|\npanic: |runtime: out of memory", text)) and "--- FAIL" not in text.split("fatal error")[0][-200:]


def first_crash_line(text):
    m = CRASH_RE.search(text)
    return m.group(1).strip() if m else ""


def journal_payload(prop, s, body, msg):
    sub, case = "unknown", None
    if body:
        parts = body.split("\n", 1)
        sub = parts[0]
        raw = parts[1] if len(parts) > 1 else ""
        try:
            case = json.loads(raw)
        except Exception:
            case = {"raw": raw}
    m = CRASH_RE.search(s.log)
    head = s.log[m.start():m.start() + 3500] if m else s.log[-2500:]
    return {"property": prop, "subcheck": sub, "case": case, "msg": msg, "variant": s.variant["name"], "log_tail": head}


def cmd_replay(args):
    path = os.path.abspath(args.path)
    try:
        payload = json.load(open(path))
    except Exception as e:
        log("cannot read replay file: %s" % e)
        return 2
    prop = payload.get("property")
    if prop not in CHECKS:
        log("replay file names unknown property %r" % prop)
        return 2
    conf = CHECKS[prop]
    repo = repo_dir(args)
    vname = payload.get("variant")
    if vname and vname.startswith("w-"):
        vname = None
    variant = next((v for v in conf["variants"] if v["name"] == vname), conf["variants"][0])
    try:
        moddir = prepare_module(repo)
        gen_corpus(moddir, prop, conf, payload.get("corpus_tier", "quick"), int(payload.get("corpus_seed", seed_value())))
        b = build_variant(moddir, prop, conf, variant)
    except RuntimeError as e:
        log(str(e))
        return 2
    test = "^TestReplay$"
    extra = {"VERIF_REPLAY": path}
    wit = (payload.get("case") or {}).get("witness") if isinstance(payload.get("case"), dict) else None
    if wit:
        test, extra = "^TestWitness$", {"VERIF_WITNESS": wit}
    s = Shard(prop, dict(variant, name="replay"), b, 0, 1, "quick", seed_value(), [], extra, conf.get("mem_gb", 6), test)
    while s.poll(conf.get("hang_cpu", 90), 1800) is None:
        time.sleep(0.1)
    s.finish()
    sys.stderr.write(s.log[-4000:])
    failed = bool(s.fails) or s.rc != 0 or s.killed_for
    if wit:
        p = os.path.join(s.out, "witness.json")
        failed = True
        if os.path.exists(p):
            failed = bool(json.load(open(p)).get("still_fails"))
    if failed:
        print("VIOLATION property=%s replay=%s" % (prop, path))
        return 1
    print("REPLAY-PASS property=%s replay=%s" % (prop, path))
    return 0


def cmd_setup(args):
    rc = 0
    r = subprocess.run(["go", "build", "./..."], cwd=HARNESS, env=goenv(), stdout=subprocess.PIPE, stderr=subprocess.STDOUT)
    if r.returncode != 0:
        log(r.stdout.decode(errors="replace")[-4000:])
        return 2
    for prop, conf in CHECKS.items():
        try:
            gen_corpus(HARNESS, prop, conf, "quick", 1)
            for v in conf["variants"]:
                build_variant(HARNESS, prop, conf, v)
        except RuntimeError as e:
            log(str(e))
            rc = 2
    return rc


def main():
    ap = argparse.ArgumentParser()
    sub = ap.add_subparsers(dest="cmd", required=True)
    c = sub.add_parser("check")
    c.add_argument("prop")
    c.add_argument("--tier", default=None)
    c.add_argument("--repo", default=None)
    r = sub.add_parser("replay")
    r.add_argument("path")
    r.add_argument("--repo", default=None)
    sub.add_parser("setup")
    args = ap.parse_args()
    os.makedirs(BUILD, exist_ok=True)
    if args.cmd == "check":
        sys.exit(cmd_check(args))
    if args.cmd == "replay":
        sys.exit(cmd_replay(args))
    if args.cmd == "setup":
        sys.exit(cmd_setup(args))


if __name__ == "__main__":
    main()
