# Per-property configuration of the driver.  `variants` are build variants of the check's test
# package; every variant is built from /repo's current working tree on each invocation.
PLAIN = {"name": "plain"}
HOOK_COMMITS = ["f739e43", "b9c4c4e"]
NOT_APPLICABLE = {}

CHECKS = {
    "C05": {
        "pkg": "c05", "variants": [PLAIN],
        "shards": {"quick": 16, "thorough": 16},
        "rule": ("(a) every byte string of length <= L (L=4 quick, 5 thorough) over a 31-byte structural alphabet through Valid, "
                 "Unmarshal(&interface{}) and a drained Decoder, each compared with the RFC 8259 recogniser (itself cross-checked with "
                 "encoding/json.Valid); distinct by construction, non-trivial = every string (the verdict of each is decided). "
                 "(b) grammar-generated valid texts with every single-byte deletion/insertion/substitution; non-trivial = mutated text "
                 "differs from its valid parent; distinct by hash(text). (c) typed destinations that skip/ignore/delegate with the "
                 "mutation confined to the ignored region."),
        "technique": "small-scope exhaustive enumeration + rapid-generated single-byte mutations against an RFC 8259 recogniser / encoding/json (differential)",
        "level_text": ("Exhaustive below the length bound (every string over the structural alphabet), sampled above it (all single-byte mutations of "
                       "generated valid texts). Decides the accept/reject language of Valid, Unmarshal and Decoder against an independent recogniser; "
                       "exploration level: absence beyond the bounds is not established."),
        "level_note": ("Oracle: hand-written RFC 8259 recogniser cross-checked with encoding/json.Valid on every input; encoding/json.Unmarshal/Decoder for the "
                       "interface{} entries. Known findings are attributed by relaxations of the recogniser (pure predicates over the input)."),
        "assumptions": ["encoding/json.Valid (go1.23.5) and the harness recogniser agree on every enumerated input (checked at run time)",
                        "the harness process survives: a child death is attributed through the journal"],
    },
    "C01": {
        "pkg": "c01", "variants": [PLAIN],
        "rule": ("rapid draws a type from the grammar (reflect realisation), a boundary-biased value recipe, how the value is reached "
                 "(direct, &v, inside []interface{} / interface field / map[string]interface{}), and the entry/settings (Marshal, MarshalIndent, "
                 "Encoder with escapeHTML on/off and indent, DisableHTMLEscape); oracle encoding/json under the same settings: error iff error, "
                 "token sequences equal modulo the listed spellings. Non-trivial = type has >= 3 nodes incl. a composite and the std output is "
                 "longer than 4 bytes; distinct by hash(type, std output, reach, settings)."),
        "technique": "property-based differential testing against encoding/json over generated types x values x settings (rapid, shrinking)",
        "level_text": "Randomised differential exploration of types x values x reach x settings against encoding/json; exploration level (sampling, no exhaustiveness claim).",
        "level_note": "Oracle: encoding/json of the same toolchain (go1.23.5); both libraries receive the same interface value. reflect-built types only exercise the fallback-map cache path; recursive and freshly named method-bearing types come from the generated-source corpus (C08/C14).",
        "assumptions": ["encoding/json go1.23.5 is the reference behaviour", "canonical token comparison tolerates only \\u0008/\\b, \\u000c/\\f and exponent zero padding"],
    },
    "C03": {
        "pkg": "c03", "variants": [PLAIN],
        "rule": ("C01's type/value generator extended with hostile leaves (non-finite float32/float64, ill-formed json.Number, marshalers returning well-formed, "
                 "leniently-accepted and broken bytes or errors) x entry (Marshal, MarshalIndent, MarshalContext with/without FieldQuery, MarshalNoEscape, "
                 "Encoder[+indent]) x option subsets {DisableHTMLEscape, DisableNormalizeUTF8 (ASCII content), UnorderedMap}. Oracle: err==nil implies the bytes are "
                 "exactly one RFC 8259 text (strict recogniser; valid UTF-8 while normalisation is on; newline only from Encoder) and encoding/json does not reject the value. "
                 "Non-trivial = a hostile class is enabled, or the type has a leaf-library type, or the output nests >= 2 deep; distinct by hash(type, recipe, reach, entry, options, hostile)."),
        "technique": "property-based testing with hostile-value generators; oracle = strict RFC 8259 recogniser + encoding/json's error verdict; delta attribution for known findings",
        "level_text": "Randomised exploration of values x options x entry points with an independent well-formedness oracle; exploration level.",
        "level_note": "Trusted: the harness recogniser (cross-checked against encoding/json.Valid in C05) and encoding/json's verdict on what JSON cannot represent. Colorize is outside the statement.",
        "assumptions": ["encoding/json's error verdict defines 'what JSON cannot represent' for the generated values"],
    },
    "C13": {
        "pkg": "c13", "variants": [PLAIN],
        "rule": ("C01's type/value generator x prefix/indent over {empty, space, tab, multi-byte, long} x colour scheme {zero, default, two marker schemes}; every case "
                 "runs 15 variants and compares each byte-for-byte with the image of Marshal's bytes: MarshalIndent / Encoder.SetIndent = encoding/json.Indent(Marshal), "
                 "Colorize with markers removed (and zero scheme) = Marshal, UnorderedMap = Marshal up to member order, DisableHTMLEscape = Marshal with \\u003c/3e/26 unescaped, "
                 "Encoder = Marshal+newline, MarshalNoEscape = MarshalContext = Debug = Marshal, Marshal(&v), []interface{}{v}, struct{X interface{}}{v}, map{k:v}; error iff error. "
                 "Non-trivial = Marshal's output nests >= 2 deep or the type has a leaf-library type; distinct by hash(type, output, prefix, indent, scheme)."),
        "technique": "property-based metamorphic testing: byte-exact relations between go-json's own entry points/options over generated types and values (rapid)",
        "level_text": "Randomised exploration of metamorphic relations between all encoder variants; exploration level.",
        "level_note": "encoding/json.Indent is the trusted formatter for the indent relation (so defects of go-json's own Indent cannot mask or fake a failure). Pointer-receiver marshalers appear only behind pointers (value vs pointer legitimately differ there).",
        "assumptions": ["colour markers use bytes that cannot occur raw in JSON output"],
    },
    "C04": {
        "pkg": "c04", "variants": [PLAIN],
        "rule": ("rapid draws a round-trippable type (no lossy marshalers, exported fields, finite floats, valid UTF-8, JSON-natural interface values, structs of up to 18 fields) "
                 "and 1-4 values; paths Marshal->Unmarshal, MarshalIndent->Unmarshal, Encoder(k values)->Decoder over a reader delivering drawn piece sizes. Precheck: encoding/json "
                 "itself round-trips the value (else the case is discarded and counted). Oracle: reflect.DeepEqual(v, decoded). Non-trivial = recipe has >= 3 non-zero draws and the text is "
                 "longer than 4 bytes; distinct by hash(type, text, path)."),
        "technique": "property-based round-trip testing (Marshal then Unmarshal, Encoder then chunked Decoder) with an encoding/json round-trip precheck defining the domain",
        "level_text": "Randomised round-trip exploration over generated types/values and stream chunkings; exploration level.",
        "level_note": "Domain = values that encoding/json round-trips; reflect.DeepEqual is the equality.",
        "assumptions": ["a value is 'JSON-representable' iff encoding/json round-trips it"],
    },
    "C02": {
        "pkg": "c02", "variants": [PLAIN],
        "rule": ("rapid draws a destination type (C01 grammar + Unmarshaler/TextUnmarshaler leaves, structs up to 18 fields), a valid UTF-8 JSON document (70% type-directed: "
                 "the destination's keys in exact/case-variant/escaped spellings, unknown and duplicate members, arrays shorter/longer than the Go array, integers at and beyond each kind's "
                 "range, null and wrong-kind values at every position; 30% free grammar), an initial destination (zero, or one recipe instantiated twice) and the entry "
                 "(Unmarshal, UnmarshalWithOption, UnmarshalContext, Decoder with UseNumber / DisallowUnknownFields). Oracle: encoding/json on an identical destination: error iff error; "
                 "both succeed => reflect.DeepEqual (incl. the bytes recording Unmarshalers received). Non-trivial = document has >= 3 tokens; distinct by hash(type, doc, recipe, entry)."),
        "technique": "property-based differential testing against encoding/json over generated destination types x type-directed documents x initial destinations (rapid, shrinking)",
        "level_text": "Randomised differential exploration against encoding/json; exploration level.",
        "level_note": "Oracle encoding/json go1.23.5. Destination contents are not compared when both err (go-json stops at the first type error by design).",
        "assumptions": ["documents are generated valid (checked with the recogniser on every case)"],
    },
    "C16": {
        "pkg": "c16", "variants": [PLAIN],
        "rule": ("encode: every value of int8/uint8/int16/uint16 (and of int32/uint32 in the thorough tier) and, for the wider kinds, every value within a window (2^12 quick, 2^16 thorough) of "
                 "every power of two and ten plus a pseudo-random fill, each through Marshal of a slice (strconv.FormatInt/FormatUint is the oracle) and boundary values through a struct that puts "
                 "the value in plain, pointer, omitempty, ,string, map-key, array, slice and interface positions (compact and indent). decode: every literal within a window (2^9 / 2^14) of "
                 "0, each bound, each power of two and ten, 1..25-digit literals, and the malformed-integer forms, for each of the 11 integer kinds, as top-level value (Unmarshal, Decoder, Decoder "
                 "with 1-byte reads), in struct/pointer/,string/array/slice positions (buffer and stream) and as map key; oracle strconv.ParseInt/ParseUint(bitSize) + the JSON integer grammar: "
                 "fits => exactly that value, otherwise an error. Every generated value/literal is distinct by construction and non-trivial (all lie at boundaries or are malformed)."),
        "technique": "small-scope exhaustive enumeration (all 8/16/32-bit values) and boundary-window enumeration against strconv as reference model",
        "level_text": "Exhaustive for the narrow kinds, dense boundary windows for the wide ones; exploration level (64-bit values away from the sampled windows are not covered).",
        "level_note": "Oracle strconv.FormatInt/FormatUint/ParseInt/ParseUint and the JSON integer grammar (ref.IsJSONInteger). Map keys use canonical decimal spellings only.",
        "assumptions": ["strconv is the reference for decimal conversion"],
    },
    "C17": {
        "pkg": "c17", "variants": [PLAIN],
        "rule": ("encode: every byte string of length 0..2 (0..3 thorough) over all 256 byte values, and strings of length 4..40 with each of 39 byte classes (control, quote, backslash, HTML, DEL, every "
                 "UTF-8 lead/continuation class incl. overlong, surrogate, > U+10FFFF, truncated, U+2028/9) at every offset 0..17 over two fillers, optionally with a second special class, each under the "
                 "four escape-flag combinations as value and as map key; oracle: the literal is well-formed, has no raw control byte (nor raw <>& / U+2028/9 with HTML escaping), encoding/json decodes it to the "
                 "original with invalid bytes as U+FFFD, and with normalisation on it equals encoding/json's literal modulo \\b/\\f spellings. decode: every JSON string literal of <= 4 (5 thorough) atoms over 26 atom "
                 "kinds (plain 1-4-byte runes, every simple escape, \\u of each class incl. pairs and lone surrogates) plus atoms at offsets up to 1023 in long literals, as value (Unmarshal, Decoder with every single "
                 "cut and 1-byte reads), struct field, ,string payload, UnmarshalText payload, map key and interface{} element, buffer and stream; oracle encoding/json. All cases distinct by construction; "
                 "non-trivial = all (each contains a byte needing escaping/replacement or an escape atom, except the few plain ones)."),
        "technique": "small-scope exhaustive enumeration (all short byte strings, all short literal compositions) + positioned byte-class sweep, differential against encoding/json",
        "level_text": "Exhaustive for short strings/literals, systematic positional sweep for longer ones; exploration level.",
        "level_note": "Oracle encoding/json (decode of the emitted literal; literal equality when normalisation is on). With DisableNormalizeUTF8 only well-formedness, content and the escape rules are asserted.",
        "assumptions": ["encoding/json go1.23.5 string escaping/unescaping is the reference"],
    },
    "C18": {
        "pkg": "c18", "variants": [PLAIN],
        "rule": ("rapid draws a text from the document grammar (all whitespace placements, escape and number spellings, numbers beyond float64), optionally with outer whitespace or one single-byte "
                 "mutation (delete/insert/substitute/truncate), a prefix and indent over {empty, spaces, tab, multi-byte, long} and a destination buffer that is empty or pre-loaded (3 contents incl. 600 bytes); "
                 "plus nesting depths 9999/10000/10001/20000 of arrays, objects and mixed. Oracle: Compact and Indent append byte-for-byte what encoding/json appends, error iff error, the buffer is unchanged "
                 "on error; Compact and Indent are idempotent on their own output; HTMLEscape appends a valid text denoting the same value without raw <>& U+2028/9 and leaves the buffer alone for invalid texts; "
                 "Valid is true for valid texts. Non-trivial = valid text with >= 5 tokens or an invalid text; distinct by hash(text, prefix, indent, preload)."),
        "technique": "property-based differential testing against encoding/json's Compact/Indent (byte-exact) plus idempotence and HTMLEscape metamorphic relations, over generated and mutated texts (rapid)",
        "level_text": "Randomised differential/metamorphic exploration of texts x formatting settings x buffer states; exploration level.",
        "level_note": "Oracle encoding/json go1.23.5 (Compact, Indent, Valid) and the harness recogniser (cross-checked with encoding/json.Valid per case).",
        "assumptions": ["'equivalent text' for HTMLEscape = same value under encoding/json decoding with last-duplicate-wins objects"],
    },
    "C09": {
        "pkg": "c09", "variants": [PLAIN],
        "rule": ("chunks: rapid draws a destination (interface{} or a generated type), and 1-4 valid documents with separators, a document padded across the 512/1024-byte buffer boundaries, or a "
                 "single-byte mutation; the stream is drained through a whole-text reader and through every single cut (<= 48 bytes), every pair of cuts (<= 24 bytes), fixed piece sizes 1,2,3,5,7,16,17 and three "
                 "drawn chunkings with zero-length reads; oracle: all outcomes (values, EOF/error) identical, and for valid documents equal to Unmarshal document by document. tokens: Token/More/InputOffset "
                 "sequences equal encoding/json's on valid texts under a drawn chunking. faults: the reader fails with a non-EOF error at a drawn byte; if the first value is not complete in the delivered bytes "
                 "Decode must fail with the reader's error. Non-trivial = a read boundary falls inside a token, or the text is longer than 512 bytes, or a fault is injected; distinct by hash(type, text[, chunking])."),
        "technique": "property-based metamorphic testing (chunking invariance, stream vs buffer) with exhaustive small-scope cut enumeration, differential token streams against encoding/json, reader fault injection",
        "level_text": "Exhaustive cut positions for short inputs, sampled chunkings for long ones, randomised documents/destinations; exploration level.",
        "level_note": "The reader schedule is owned by the harness (ChunkReader records the boundaries actually observed). Offsets after errors and token streams of invalid documents are not compared.",
        "assumptions": ["Unmarshal's result on each single document is the reference for the stream"],
    },
    "C06": {
        "pkg": "c06", "variants": [PLAIN], "mem_gb": 12, "hang_cpu": 120,
        "rule": ("every case calls Unmarshal / UnmarshalWithOption(first-win) / UnmarshalContext / UnmarshalNoEscape, Decoder.Decode (drawn chunking) / Token / More / Buffered / InputOffset, a Decoder over a failing "
                 "reader, Valid, Compact, Indent, HTMLEscape, 14 compiled Paths (Extract, Unmarshal) and CreatePath(input)+Get; oracle: every call returns (no recovered panic; a dying or non-progressing child is "
                 "attributed through the journal; 120 s CPU without progress = hang). Inputs: (a) generated valid texts (free and type-directed) with every truncation and 40 drawn single-byte mutations, into 26 fixed "
                 "destinations (all kinds, ,string, keyed maps, Unmarshalers, a recursive struct) or a generated type; (b) every byte string of length <= 3 (4 thorough) over the structural alphabet x 3 destinations; "
                 "(c) 13 nesting/size bomb shapes x sizes 10^3..10^6 (10^7 thorough) as document, ignored member, Unmarshaler payload, recursive-struct chain; (d) every path string of length <= 5 (6) over "
                 "$.[]*'\"01ab. Non-trivial = input not valid JSON, or a bomb, or an enumerated string; distinct by hash / by construction."),
        "technique": "robustness fuzzing: generated + exhaustively enumerated + mutated inputs and nesting bombs through every decoding/utility entry point in supervised child processes (crash and hang attribution by journal)",
        "level_text": "Broad randomised and small-scope exhaustive robustness exploration with crash isolation; exploration level (native coverage-guided fuzzing is not part of the registered commands).",
        "level_note": "A CPU-time budget without journal progress stands in for non-termination. Only 'returns' is asserted, not what is returned.",
        "assumptions": ["120 s of CPU without progress on inputs <= 30 MB means a hang"],
    },
    "C07": {
        "pkg": "c07",
        "variants": [PLAIN, {"name": "forcegc", "env": {"GOGC": "1", "VERIF_FORCE_GC": "1"}, "shards": {"quick": 8, "thorough": 16}},
                     {"name": "checkptr", "gcflags": "all=-d=checkptr", "shards": {"quick": 8, "thorough": 16}}],
        "rule": ("rapid draws a destination type T (arrays/slices/structs over 27 element shapes of 1..64 bytes, or the C02 grammar), an initial value (one recipe instantiated three times), a document "
                 "(type-directed: short/long arrays, missing members, null, duplicates; free; or truncated so that decoding fails after some stores) and the entry (Unmarshal, Decoder, chunked Decoder). T is laid "
                 "out by reflect.StructOf inside struct{Pre [64]byte; V T; Mid [64]byte; W T; Post [64]byte} with 0xA5 canaries and only &V is passed. Oracle: canaries and the raw bytes of W unchanged and W still "
                 "deeply equal to its initial value; V can be walked completely (every string byte, element, map entry) and survives forced GCs, success or not; on success V equals encoding/json's result from the "
                 "same initial value. Variants: normal, GOGC=1 with forced GCs, and a -d=checkptr build. Non-trivial = valid document with >= 3 tokens, or a failing decode after a partial store; "
                 "distinct by hash(type, doc, recipe, entry)."),
        "technique": "property-based testing with memory canaries, sibling snapshots, well-formedness walks under forced GC and checkptr instrumentation; differential against encoding/json for the addressed part",
        "level_text": "Randomised exploration of layouts x documents x initial values with byte-level invariants; exploration level.",
        "level_note": "Stray writes are visible only if they land in the 64-byte canaries, the sibling value, or corrupt the value itself; reads past the private buffer are visible only through checkptr/crashes.",
        "assumptions": ["reflect.StructOf lays V and W out like a compiled struct would"],
    },
    "C12": {
        "pkg": "c12", "variants": [PLAIN], "mem_gb": 12,
        "rule": ("rapid state machine (t.Repeat): histories of unmarshal (5 destination types holding strings, []byte, RawMessage, Number, interface{}, maps, and Unmarshaler/TextUnmarshaler that retain the slice they are "
                 "given; input slices with 0..64 bytes of spare capacity; Unmarshal / UnmarshalWithOption / UnmarshalContext), decoder-next (one Decoder over a 6-document stream with a drawn chunking), scribble-input "
                 "(overwrite a caller input including its spare capacity), marshal (sizes 1 B..1 MiB through 5 entry points; result kept), scribble-output (overwrite a kept result up to its capacity), churn (7 further calls of "
                 "a drawn size) and gc. Invariant after every step: every value decoded earlier renders as it did right after decoding, every untouched Marshal result equals its snapshot, every untouched input equals its "
                 "snapshot over its whole capacity, and each new Marshal result equals encoding/json's. Non-trivial = history with >= 4 steps including a scribble; distinct by hash of the step list."),
        "technique": "stateful property-based testing (rapid state machine) with snapshot invariants over call histories; shrinks the history as one value",
        "level_text": "Randomised exploration of call histories with aliasing invariants; exploration level.",
        "level_note": "Aliasing shows only if some later step reuses or overwrites the shared memory; the history generator forces buffer reuse with sizes from 1 B to 1 MiB and explicit scribbling.",
        "assumptions": ["deep rendering (gen.Render) of a decoded value captures everything a caller can observe"],
    },
    "C15": {
        "pkg": "c15", "variants": [PLAIN],
        "rule": ("small-scope enumeration: struct shapes built with reflect.StructOf from JSON names over the alphabet {A a B b 1 _ e-acute E-acute < KELVIN}: every 1-name set and 2-name sets (every 7th quick, all thorough) of "
                 "names of length <= 2, flat, embedded and doubly embedded; wide shapes with 7/8/9/15/16/17/20 names (numbered, shared-prefix, mixed-case), names of 63/64/65/130 bytes, case-colliding and duplicated "
                 "names across embedding depths. Keys: every string of length <= 2 (3 thorough) over the alphabet plus every name, its upper/lower-cased form and its one-edit neighbours, each in raw, fully \\u-escaped "
                 "(lower and upper hex) and partly escaped spelling, alone and as duplicates in both orders, through Unmarshal, Decoder and a 1-byte-read Decoder. Oracle: encoding/json decoding the same document into "
                 "the same struct type (which int field received which marker; error iff error) and, for encoding, byte-equal Marshal output. All (shape, document, mode) triples are distinct by construction and "
                 "non-trivial (each probes a match/near-match decision)."),
        "technique": "small-scope exhaustive enumeration of struct shapes x object keys x spellings x decode modes, differential against encoding/json",
        "level_text": "Exhaustive within the stated name/key bounds, hand-picked wide shapes beyond; exploration level.",
        "level_note": "Oracle encoding/json go1.23.5 on an identical reflect.StructOf type. Names that encoding/json does not accept as tag names are outside the domain.",
        "assumptions": ["reflect.StructOf types behave like compiled struct types for both libraries (they take the fallback cache path)"],
    },
    "C20": {
        "pkg": "c20", "variants": [PLAIN],
        "rule": ("semantics: rapid draws a document (keys from a pool incl. names needing quotes) and derives a path from it (child, double- and single-quoted child, index in and out of range, [*], ..name, missing "
                 "names, up to 5 selectors), sometimes truncating the document; oracle: a reference evaluator over an ordered AST (source ranges, document order) for Extract, and the decoded parts for Path.Unmarshal; "
                 "kind-mismatch and duplicate-key cases are no-panic only. reuse: one Path through 2-8 documents (matching, mismatching, malformed) must answer each like a fresh Path, also when 2-8 goroutines share it. "
                 "enum: every string of length <= 6 (7 thorough) over $.[]*'\"01ab: no panic, clearly malformed text rejected, the documented grammar accepted and evaluated on three documents. Non-trivial = path with >= 2 "
                 "selectors and a non-empty reference result, or a success after a failure on a reused Path; enum strings distinct by construction."),
        "technique": "property-based testing against a reference JSONPath evaluator (ordered AST), stateful reuse/sharing histories, small-scope exhaustive enumeration of path strings",
        "level_text": "Randomised comparison with a reference model plus exhaustive short path strings; exploration level.",
        "level_note": "The reference implements the five selector kinds of the doc comment with the standard meaning; where a selector meets a value of the wrong kind only 'no panic' is asserted.",
        "assumptions": ["missing names and out-of-range indices select nothing"],
    },
    "C19": {
        "pkg": "c19", "variants": [PLAIN], "shards": {"quick": 16, "thorough": 64},
        "rule": ("rapid draws a struct type (reflect.StructOf, 1-5 fields per level, depth <= 3; field kinds int, string, *int, pointer-receiver marshaler, context-aware marshaler, struct, *struct, []struct, [2]struct, "
                 "map[string]struct, interface{} holding a struct), 1-5 queries over its field tree (subsets per level, sub-queries, duplicated and non-existent names) and a history of 2-12 encodings that interleaves the "
                 "queries and the unfiltered encoding (every third query is rebuilt from its own QueryString and compared structurally). Oracle: reference projection of Marshal's own output (ordered AST) by a walk over "
                 "(type, AST, query): selected members in struct order, sub-queries applied through pointers, interfaces, slices, arrays, maps and the context-aware marshaler; byte-equal to MarshalContext's output; the "
                 "unfiltered encoding stays equal to Marshal. Non-trivial = some query has depth >= 2; distinct by hash of the whole case."),
        "technique": "property-based testing against a reference projection (model) over generated types, queries and encode histories (rapid, shrinking)",
        "level_text": "Randomised comparison with a reference model over types x queries x histories; exploration level.",
        "level_note": "The reference projects go-json's own unfiltered output, so only the filtering is judged. reflect.StructOf types take the fallback cache path; each history starts with a cold query cache for its type.",
        "assumptions": ["a root query without fields selects nothing; a sub-query without fields keeps the whole member"],
    },
    "C14": {
        "pkg": "c14",
        "corpus": {"quick": 3000, "thorough": 6000, "profile": "mixed"},
        "variants": [{"name": "hooks", "tags": "verif", "shards": {"quick": 16, "thorough": 12}},
                     {"name": "hooks-race", "tags": "verif", "race": True, "shards": {"quick": 4, "thorough": 6}},
                     {"name": "plain", "shards": {"quick": 4, "thorough": 6}}],
        "mem_gb": 10,
        "rule": ("the binary is the generated input: cmd/gencorpus writes N named struct types per VERIF_SEED (recursive, mutually recursive in pairs, embedded, with value/pointer receiver marshal methods; "
                 "plus unnamed composites []T, map[string]*T, *T, [3]T, map[int][]*T over them) into the check's test binary, so every seed gives another linker layout; every shard walks the whole registry in its own "
                 "shuffled order, twice (cold, warm), interleaving run-time-created types (reflect.SliceOf/MapOf/ArrayOf/PointerTo/StructOf around corpus types, heap descriptors). Per type: zero value and filled values "
                 "(reflective filler, seed recorded) through Marshal (value and pointer), MarshalIndent and Unmarshal. Oracles: (1) hook (-tags verif): the program returned by CompileToGetCodeSet was compiled for the requested "
                 "type, and a decoder cache slot never serves two types; (2) output token-equal to encoding/json's and decoded value deeply equal to encoding/json's. Builds: hooks, hooks+race (the mutex cache code), plain. "
                 "Non-trivial = composite type (struct, or container of one); distinct by (type, derivation)."),
        "technique": "generated-program testing: a generated type corpus compiled into the binary (one linker layout per seed) x run-time-created types, with cache-identity assertion hooks and an encoding/json differential oracle",
        "level_text": "Enumeration of every type of a generated binary in shuffled orders, per seed one linker layout; exploration level over layouts.",
        "level_note": "One linker layout per run (per VERIF_SEED and tier); layouts are sampled, not enumerated. The corpus grammar constructs around the open encoder/decoder findings (see DESIGN.md).",
        "assumptions": ["encoding/json defines the expected encoding of each type", "hook counters > 0 show the assertions ran (checked by the harness)"],
    },
    "C08": {
        "pkg": "c08",
        "corpus": {"quick": 240, "thorough": 1600, "profile": "recursive"},
        "variants": [{"name": "hooks", "tags": "verif"},
                     {"name": "plain", "shards": {"quick": 4, "thorough": 16}}],
        "mem_gb": 8, "hang_cpu": 240,
        "rule": ("cmd/gencorpus writes N named struct types per VERIF_SEED, each with a recursive member at a drawn position (self through pointer, slice, slice of pointers, map, interface; mutual recursion in pairs; "
                 "embedded structs; every field kind before and after the recursive member; marshal methods incl. ones that allocate, force a collection and grow the stack). Per type: filled values; for every "
                 "self link a chain of depth 0,1,2,3,10,100,999,1000,1001,1500,2000 and a cycle of length 1,2,3,50,1001,1500 through that link; plus interface-only values (map/slice/mixed nesting of the same depths, "
                 "cyclic variants) and frame-local values whose first member's marshaler grows the stack. Each value goes through Marshal, MarshalIndent, Colorize, Colorize+Indent, Encoder without HTML escaping and "
                 "MarshalNoEscape. Oracles: acyclic: no panic/death/hang, output token-equal to encoding/json, slot hook (-tags verif: every slot access inside the slot array of a live context) silent; cyclic: every "
                 "entry point returns an error. Non-trivial = the type has a recursive member; distinct by (type, build, link, depth, seed)."),
        "technique": "generated-program testing (type corpus with recursive shapes compiled per seed) x structured value construction (chains, cycles) with an encoding/json differential oracle and a slot-bounds assertion hook",
        "level_text": "Exploration of recursive type shapes x nesting depths x cycles through all interpreters; exploration level.",
        "level_note": "Chains through types whose marshal methods re-encode the receiver stop at depth 100 and get no cycles (any encoder recurses natively there). Indenting entry points on map chains deeper than 300 are an open finding (memory).",
        "assumptions": ["encoding/json defines the expected output and which values are cyclic"],
    },
    "C11": {
        "pkg": "c11", "variants": [PLAIN],
        "rule": ("per shard a pool of 260 (thorough 600) self-contained call descriptors is derived from VERIF_SEED: Marshal / MarshalIndent / MarshalWithOption (Colorize, UnorderedMap, DisableHTMLEscape, "
                 "DisableNormalizeUTF8, Debug) / MarshalContext (marker and FieldQuery handles) / MarshalNoEscape / Encoder handles; Unmarshal / UnmarshalContext / UnmarshalNoEscape / first-win / Decoder handles; "
                 "Path handles (Unmarshal, Extract, Get); Valid / Compact / Indent / HTMLEscape; over 20 types; deliberately failing calls: marshaler error, marshaler panic (recovered by the caller), cyclic values "
                 "(1200-node list, self-containing map), syntax errors cut at drawn positions, type errors, refusing and panicking unmarshalers, failing paths; plus a 1200-deep acyclic list built from the same nodes as "
                 "the cycle. Cold oracle: every pool call is executed alone as the first call of a fresh process. rapid draws histories (2..300 calls) over the pool; each history runs in its own fresh process with "
                 "handles shared inside the history, and every call's outcome (error type and text with addresses masked, output bytes / decoded value; member order normalised for UnorderedMap and for recursive "
                 "descent over Go maps) must equal its cold outcome. Non-trivial = a failing call is followed by a call sharing its type or handle, or one type is used with two option sets; distinct by call-id sequence."),
        "technique": "stateful property-based testing (rapid, histories shrink as one sequence) against a cold-process oracle: each call's outcome in a history vs the same call issued first in a fresh process",
        "level_text": "Randomised exploration of call histories against a cold-process oracle; exploration level.",
        "level_note": "A Decoder handle is replaced after an error or a recovered panic (a stream cannot be resynchronised; the statement is read as 'option state is not sticky'). Every history starts from a fresh process, so the first use of each type happens inside the history.",
        "assumptions": ["the outcome of a pool call in a fresh process is deterministic (checked: cold calls that do not complete are excluded and counted)"],
    },
    "C10": {
        "pkg": "c10",
        "corpus": {"quick": 3000, "thorough": 6000, "profile": "mixed"},
        "variants": [{"name": "race", "race": True, "stall_wall": 120, "shards": {"quick": 16, "thorough": 32}},
                     {"name": "plain", "stall_wall": 120, "shards": {"quick": 16, "thorough": 32}}],
        "mem_gb": 8,
        "rule": ("rounds: G in {2,4,16,64} goroutines x GOMAXPROCS in {1,2,4,16}, released by one barrier, each running the whole operation mix of the round in its own order (some operations twice, a third of the "
                 "goroutines starting with the same one, Gosched jitter): Marshal, Marshal(&v), MarshalIndent, own Encoder, Unmarshal, own Decoder, Valid+Compact+Indent, MarshalContext with one FieldQuery shared "
                 "by all goroutines, Extract on one shared Path, over 3 corpus types per round that nothing in the process has touched before (generated-source corpus, per-shard slice) plus run-time-created types "
                 "around them (reflect.StructOf/ArrayOf/MapOf/SliceOf: fallback cache) and a 40-key nested map (pooled map contexts). Oracles: every result equals the result of the same call made alone "
                 "afterwards, and encoding/json's where defined; no panic; race build: the race detector (halt_on_error) reports nothing with a go-json frame; no deadlock (120 s without progress and CPU). "
                 "Two builds: -race (mutex cache code) and plain (unsynchronised cache code). Non-trivial = round with fresh compiled types; distinct by (shard, round, G, GOMAXPROCS, seed)."),
        "technique": "randomised concurrency testing: generated rounds of goroutines over cold types with a sequential-replay oracle and an encoding/json differential, under the race detector and in the production build",
        "level_text": "Schedules are sampled (repetition, varied G/GOMAXPROCS, jitter), not enumerated; exploration level.",
        "level_note": "No scheduler control is available: interleavings are sampled by repetition. The unsynchronised publish of the production build is compiled out under -race and is examined behaviourally only (wrong results, crashes).",
        "assumptions": ["a call made alone after the round returns the reference result (C11)"],
    },
}
