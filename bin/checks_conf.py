# Per-property configuration of the driver.  `variants` are build variants of the check's test
# package; every variant is built from /repo's current working tree on each invocation.
PLAIN = {"name": "plain"}
HOOK_COMMITS = []
NOT_APPLICABLE = {}

CHECKS = {
    "C05": {
        "pkg": "c05", "variants": [PLAIN],
        "shards": {"quick": 16, "thorough": 16},
        "rule": ("(a) every byte string of length <= L (L=4 quick, 5 thorough) over a 31-byte structural alphabet through Valid, "
                 "Unmarshal(&interface{}) and a drained Decoder, each compared with the RFC 8259 recogniser (itself cross-checked with "
                 "encoding/json.Valid); distinct by construction, non-trivial = every string (the verdict of each is decided). "
                 "(b) grammar-generated valid texts with every single-byte deletion/insertion/substitution; non-trivial = mutated text "
                 "differs from its valid parent; distinct by hash(text). (c) typed destinations that skip/ignore/delegate with the "
                 "mutation confined to the ignored region."),
        "technique": "small-scope exhaustive enumeration + rapid-generated single-byte mutations against an RFC 8259 recogniser / encoding/json (differential)",
        "level_text": ("Exhaustive below the length bound (every string over the structural alphabet), sampled above it (all single-byte mutations of "
                       "generated valid texts). Decides the accept/reject language of Valid, Unmarshal and Decoder against an independent recogniser; "
                       "exploration level: absence beyond the bounds is not established."),
        "level_note": ("Oracle: hand-written RFC 8259 recogniser cross-checked with encoding/json.Valid on every input; encoding/json.Unmarshal/Decoder for the "
                       "interface{} entries. Known findings are attributed by relaxations of the recogniser (pure predicates over the input)."),
        "assumptions": ["encoding/json.Valid (go1.23.5) and the harness recogniser agree on every enumerated input (checked at run time)",
                        "the harness process survives: a child death is attributed through the journal"],
    },
}
